"""Virtual kernel and deviation-bounded schedule explorer for curtsies.input (DESIGN.md 3.5).

The library reaches the outside world only through module attributes of curtsies.input (os, select, time, signal, termios, tty) and
curtsies.termhelpers (fcntl, os); the harness substitutes these with the objects below - no repository hook is needed.
The kernel implements exactly what the library calls: an fd table with byte buffers and O_NONBLOCK flags, pipe/read/write/close/
set_blocking, select (ready list in argument order), a strictly increasing virtual clock, fcntl F_GETFL/F_SETFL, termios/tty no-ops
that record the attributes, signal/getsignal/set_wakeup_fd with CPython's delivery semantics.

Every kernel call is a *scheduling point* at which the environment (byte arrivals, callbacks run "by another thread", the deferred
os.write of a thread-safe callback, SIGINT) may act; the explorer owns every such decision through Chooser.choose().
"""
import types

O_NONBLOCK = 0o4000
F_GETFL, F_SETFL = 3, 4
SIGINT = 2
EPS = 1e-6


class HarnessError(Exception):
    pass


class Deadlock(Exception):
    """The main thread blocks forever."""


class Chooser:
    """Replays a prefix of choices, then takes alternative 0 everywhere; records every choice point."""

    def __init__(self, prefix=()):
        self.prefix = tuple(prefix)
        self.i = 0
        self.points = []  # (labels, costs, chosen)

    def choose(self, labels, costs):
        n = len(labels)
        if n == 1:
            return 0
        if self.i < len(self.prefix):
            c = self.prefix[self.i]
            if c >= n:
                raise HarnessError("replayed choice %d out of range at point %d (%r)" % (c, self.i, labels))
        else:
            c = 0
        self.points.append((tuple(labels), tuple(costs), c))
        self.i += 1
        return c


def explore(run, bound, on_execution, max_executions=None):
    """Stateless DFS over all choice sequences whose summed cost is <= bound. run(chooser) executes one schedule."""
    stack = [()]
    count = 0
    while stack:
        prefix = stack.pop()
        ch = Chooser(prefix)
        result = run(ch)
        count += 1
        on_execution(prefix, ch, result)
        if ch.i < len(prefix):
            raise HarnessError("prefix %r not fully consumed" % (prefix,))
        spent = 0
        choices = [p[2] for p in ch.points]
        for i, (labels, costs, c) in enumerate(ch.points):
            if i >= len(prefix):
                for alt in range(1, len(labels)):
                    if spent + costs[alt] <= bound:
                        stack.append(tuple(choices[:i]) + (alt,))
            spent += costs[c]
        if max_executions is not None and count >= max_executions:
            return count, False
    return count, True


class Kernel:
    """One instance per execution."""

    TTY = 0

    def __init__(self, chooser, env, tty_fd=0, lowest_free=False):
        """tty_fd: descriptor number of the terminal. lowest_free: new descriptors get the lowest free number, as in a real kernel
        (with the terminal on a high number and the standard descriptors closed, the first pipe is 0 and 1); otherwise 3, 4, 5 ..."""
        self.ch = chooser
        self.env = env  # Environment: pending events, deliver()
        self.TTY = tty_fd
        self.lowest_free = lowest_free
        self.fds = {tty_fd: {"buf": bytearray(), "flags": 0, "peer": None, "kind": "tty"}}
        self.next_fd = 3
        self.clock = 1000.0
        self.handlers = {SIGINT: "default_int_handler"}
        self.wakeup_fd = -1
        self.tty_attrs = ["cooked"] + [3, 28, 127, 21, 4, 0, 1, 0, 17, 19, 26, 0, 18, 15, 23, 22] + [0] * 16  # mode, then 32 control characters
        self.closed = set()
        self.in_request = False
        self.log = []
        self.selects = 0
        self.selects_done = 0
        # namespaces handed to the library
        self.os = types.SimpleNamespace(pipe=self.pipe, read=self.read, write=self.write, close=self.close, set_blocking=self.set_blocking, O_NONBLOCK=O_NONBLOCK)
        self.select = types.SimpleNamespace(select=self.select_)
        self.time = types.SimpleNamespace(time=self.time_)
        self.fcntl = types.SimpleNamespace(fcntl=self.fcntl_, F_GETFL=F_GETFL, F_SETFL=F_SETFL)
        self.termios = types.SimpleNamespace(tcgetattr=self.tcgetattr, tcsetattr=self.tcsetattr, TCSANOW=0, TCSADRAIN=1, TCSAFLUSH=2, VSTOP=9, VSTART=8, VSUSP=10)
        self.tty = types.SimpleNamespace(setcbreak=self.setcbreak)
        self.signal = types.SimpleNamespace(signal=self.signal_, getsignal=self.getsignal, set_wakeup_fd=self.set_wakeup_fd, SIGINT=SIGINT, default_int_handler="default_int_handler")

    # ---- scheduling point ---------------------------------------------------------------------------
    def point(self, where):
        """The environment may act here (cost 1 per early event)."""
        if not self.in_request or getattr(self.env, "delivering", 0):
            return  # no scheduling point outside requests, nor while an environment event is itself being carried out
        while True:
            opts = self.env.enabled_early()
            if not opts:
                return
            labels = ["continue"] + [o[0] for o in opts]
            costs = [0] + [1] * len(opts)
            c = self.ch.choose(labels, costs)
            if c == 0:
                return
            self.env.deliver(opts[c - 1][1], self, during=where)

    # ---- os ---------------------------------------------------------------------------------------------
    def pipe(self):
        self.point("pipe")
        if self.lowest_free:
            free = []
            n = 0
            while len(free) < 2:
                if n not in self.fds or n in self.closed:
                    free.append(n)
                n += 1
            r, w = free
            self.closed.discard(r)
            self.closed.discard(w)
        else:
            r, w = self.next_fd, self.next_fd + 1
            self.next_fd += 2
        self.fds[r] = {"buf": bytearray(), "flags": 0, "peer": None, "kind": "pipe_r"}
        self.fds[w] = {"buf": None, "flags": 0, "peer": r, "kind": "pipe_w"}
        return r, w

    def _fd(self, fd):
        if fd not in self.fds or fd in self.closed:
            raise OSError(9, "Bad file descriptor")
        return self.fds[fd]

    def read(self, fd, n):
        self.point("read")
        f = self._fd(fd)
        if f["buf"] is None:
            raise OSError(9, "not readable")
        if not f["buf"]:
            if f["flags"] & O_NONBLOCK:
                raise BlockingIOError(11, "Resource temporarily unavailable")
            raise Deadlock("blocking read on empty fd %d" % fd)
        data = bytes(f["buf"][:n])
        del f["buf"][:n]
        if fd == self.TTY:
            self.env.bytes_read(data)
        return data

    def write(self, fd, data):
        f = self._fd(fd)
        if f["peer"] is None:
            raise OSError(9, "not writable")
        if self.env.in_threadsafe_callback and getattr(self.env, "allow_write_deferral", True):
            # the other thread may be preempted between its append and its write
            c = self.ch.choose(["write_now", "write_deferred"], [0, 1])
            if c == 1:
                self.env.defer_write(f["peer"], bytes(data))
                return len(data)
        self.fds[f["peer"]]["buf"].extend(data)
        return len(data)

    def raw_write(self, rfd, data):
        if rfd in self.closed:
            return
        self.fds[rfd]["buf"].extend(data)

    def close(self, fd):
        self._fd(fd)
        self.closed.add(fd)

    def set_blocking(self, fd, blocking):
        f = self._fd(fd)
        f["flags"] = (f["flags"] & ~O_NONBLOCK) | (0 if blocking else O_NONBLOCK)

    # ---- fcntl / termios / tty ----------------------------------------------------------------------------
    def fcntl_(self, fd, cmd, arg=0):
        self.point("fcntl")
        f = self._fd(fd)
        if cmd == F_GETFL:
            return f["flags"]
        if cmd == F_SETFL:
            f["flags"] = arg
            return 0
        raise HarnessError("fcntl cmd %r not modelled" % cmd)

    def tcgetattr(self, stream):
        return [0, 0, 0, self.tty_attrs[0], 0, 0, list(self.tty_attrs[1:])]

    def _flush_input(self, when):
        if when == 2:  # TCSAFLUSH: everything received but not yet read is discarded
            del self.fds[self.TTY]["buf"][:]

    def tcsetattr(self, stream, when, attrs):
        self._flush_input(when)
        self.tty_attrs = [attrs[3]] + list(attrs[6])

    def setcbreak(self, stream, when=2):  # tty.setcbreak's default is TCSAFLUSH
        self._flush_input(when)
        self.tty_attrs = ["cbreak"] + self.tty_attrs[1:7] + [1, 0] + self.tty_attrs[9:]  # VMIN=1, VTIME=0

    # ---- signal -----------------------------------------------------------------------------------------------
    def signal_(self, signum, handler):
        self.point("signal")
        old = self.handlers.get(signum)
        self.handlers[signum] = handler
        return old

    def getsignal(self, signum):
        return self.handlers.get(signum)

    def set_wakeup_fd(self, fd, warn_on_full_buffer=True):
        old = self.wakeup_fd
        self.wakeup_fd = fd
        return old

    def deliver_signal(self, signum):
        """A signal other than SIGINT for which the program installed a Python handler: the C-level handler writes the number to the
        wake-up fd, then the Python handler runs."""
        h = self.handlers.get(signum)
        if not callable(h):
            return  # default / ignored: no C-level handler of CPython's, nothing is written
        if self.wakeup_fd != -1 and self.wakeup_fd not in self.closed:
            w = self.fds[self.wakeup_fd]
            self.fds[w["peer"]]["buf"].extend(bytes([signum]))
        h(signum, None)

    def deliver_sigint(self):
        """C-level handler: write the signal number to the wake-up fd at once; then the Python-level handler runs (we are at a
        point where CPython runs handlers: a kernel call boundary or an interrupted select, PEP 475)."""
        if self.wakeup_fd != -1 and self.wakeup_fd not in self.closed:
            w = self.fds[self.wakeup_fd]
            self.fds[w["peer"]]["buf"].extend(bytes([SIGINT]))
        h = self.handlers.get(SIGINT)
        if callable(h):
            h(SIGINT, None)
        else:
            raise KeyboardInterrupt()

    # ---- time / select ------------------------------------------------------------------------------------------
    def time_(self):
        self.point("time")
        self.clock += EPS
        return self.clock

    def select_(self, rlist, wlist, xlist, timeout=None):
        self.selects += 1
        if self.selects > getattr(self, "max_selects", 200):
            raise HarnessError("more than %d select calls in one execution (livelock?)" % getattr(self, "max_selects", 200))
        self.point("select")
        start = self.clock
        deadline = None if timeout is None else start + max(0.0, timeout)
        while True:
            ready = [fd for fd in rlist if self._fd(fd)["buf"]]
            if ready:
                self.clock += EPS
                self.selects_done += 1
                return ready, [], []
            if deadline is not None and self.clock >= deadline:
                self.clock += EPS
                self.selects_done += 1
                return [], [], []
            # blocked: something must happen - an environment event, or the timeout
            opts = self.env.enabled_blocked()
            labels, costs = [], []
            if deadline is not None:
                labels.append("timeout")
                costs.append(0)
            for name, ev in opts:
                labels.append(name)
                # the second half of a thread-safe callback (its write) landing during the wait is not a further deviation:
                # deferring it was one already
                costs.append(0 if (deadline is None or name == "deferred_write") else 1)
            if not labels:
                raise Deadlock("select blocks forever: nothing can happen any more")
            c = self.ch.choose(labels, costs)
            if deadline is not None and c == 0:
                self.clock = deadline + EPS
                continue
            ev = opts[c - (1 if deadline is not None else 0)][1]
            # the event lands part-way through the wait
            if deadline is not None:
                self.clock += 0.4 * (deadline - self.clock)
            else:
                self.clock += 1.0
            self.env.deliver(ev, self, during="blocked_select")


def install(kernel, encoding="utf-8"):
    import curtsies.input as ci
    import curtsies.termhelpers as th

    ci.os = kernel.os
    ci.select = kernel.select
    ci.time = kernel.time
    ci.signal = kernel.signal
    ci.termios = kernel.termios
    ci.tty = kernel.tty
    if hasattr(ci, "fcntl"):
        ci.fcntl = kernel.fcntl
    th.fcntl = kernel.fcntl
    th.os = kernel.os
    th.termios = kernel.termios
    th.tty = kernel.tty
    ci.getpreferredencoding = lambda: encoding


def uninstall():
    import fcntl
    import locale
    import os
    import select
    import signal
    import sys
    import termios
    import time
    import tty

    import curtsies.input as ci
    import curtsies.termhelpers as th

    ci.os, ci.select, ci.time, ci.signal, ci.termios, ci.tty = os, select, time, signal, termios, tty
    if hasattr(ci, "fcntl"):
        ci.fcntl = fcntl
    th.fcntl, th.os, th.termios, th.tty = fcntl, os, termios, tty
    ci.getpreferredencoding = lambda: locale.getpreferredencoding() or sys.getdefaultencoding()
