"""Repetition and process-pollution families (shared by the value-level checks).

Bounded exhaustive exploration of *small* histories never performs the same call hundreds of times, and never runs in a process that
has already handled thousands of other values.  Code that arms itself "after N uses" or "above N cache entries" is only reached by
such histories.  Two deterministic families:

  repetition : every operation of a property's menu applied REPS times to ONE object and REPS times to freshly built equal objects;
               every result must equal the first one (differential oracle, no expected values needed - the first results of the same
               operations on the same values are compared with the reference models by the other families of each check).
  pollution  : pollute() builds, renders, measures, hashes, slices and wraps N distinct values with N distinct attribute sets and
               texts; a check calls it in some of its shards before exploring, so the same cases are explored in a clean and in a
               used process.
"""
from mc import cells as C

REPS = 300


def values():
    specs = [
        (("ab", (("fg", 31),)), ("", ()), ("cd", (("bold", True), ("fg", 34)))),
        (("aＥ", ()), ("e", (("bg", 44),)), ("̀x y", (("bg", 44), ("underline", True)))),
        (("x y\nz w  q", (("fg", 32),)),),
        (("status", (("bold", False), ("fg", 31))),),
        (),
        C.scale_spec(60, "runs7"),
        C.scale_spec(300, "words"),
        C.scale_spec(1500, "wide"),
    ]
    return specs


def plain(x):
    """Comparable plain data for whatever an operation returns."""
    if hasattr(x, "chunks"):
        return ("fmt", tuple(C.cells(x)), x.s, len(x))
    if isinstance(x, (list, tuple)):
        return tuple(plain(y) for y in x)
    if isinstance(x, dict):
        return tuple(sorted(x.items()))
    if hasattr(x, "rows"):
        return tuple(plain(r) for r in x.rows)
    return x


def ops(prop):
    from curtsies.formatstring import FmtStr, fmtstr, linesplit

    n2 = lambda f: len(f) // 2
    table = {
        "C01": [("str(f)", lambda f: str(f)), ("str(f[1:])", lambda f: str(f[1:])), ("str(f+f)", lambda f: str(f + f))],
        "C05": [("from_str(str(f))", lambda f: FmtStr.from_str(str(f))), ("fmtstr(str(f))", lambda f: fmtstr(str(f)))],
        "C06": [("f[mid]", lambda f: f[n2(f)] if len(f) else None), ("f[1:-1]", lambda f: f[1:-1]), ("f[:mid]", lambda f: f[: n2(f)]), ("f+f", lambda f: f + f),
                ("f[mid:mid+4]", lambda f: f[n2(f) : n2(f) + 4]), ("f[7:]", lambda f: f[7:]), ("f[2*mid//3]", lambda f: f[2 * n2(f) // 3] if len(f) else None),
                ("f*3", lambda f: f * 3), ("f.join([f,'k'])", lambda f: f.join([f, "k"])), ("'<'+f", lambda f: "<" + f), ("f[-3:]", lambda f: f[-3:])],
        "C09": [("splice('Z',mid)", lambda f: f.splice("Z", n2(f))), ("splice('',1,3)", lambda f: f.splice("", 1, 3)), ("splice(fmt,0,mid)", lambda f: f.splice(fmtstr("Y", "yellow"), 0, n2(f))),
                ("append", lambda f: f.append("Z")), ("insert at end", lambda f: f.splice("Z", len(f)))],
        "C10": [("width", lambda f: f.width), ("width_at_offset(mid)", lambda f: f.width_at_offset(n2(f))), ("width_aware_slice(1,w-1)", lambda f: f.width_aware_slice(slice(1, max(1, f.width - 1)))),
                ("width_aware_slice(0,3)", lambda f: f.width_aware_slice(slice(0, 3))), ("width_aware_slice(mid,mid+5)", lambda f: f.width_aware_slice(slice(f.width // 2, f.width // 2 + 5))),
                ("width_aware_slice(7,w)", lambda f: f.width_aware_slice(slice(7, f.width))), ("width_at_offset(7)", lambda f: f.width_at_offset(7))],
        "C11": [("width_aware_splitlines(7)", lambda f: list(f.width_aware_splitlines(7))), ("width_aware_splitlines(2)", lambda f: list(f.width_aware_splitlines(2))),
                ("width_aware_splitlines(80)", lambda f: list(f.width_aware_splitlines(80)))],
        "C13": [("views", lambda f: (f.s, len(f), f.width, str(f), repr(f)))],
        "C14": [("copy_with_new_atts(bold)", lambda f: f.copy_with_new_atts(bold=True)), ("new_with_atts_removed(fg)", lambda f: f.new_with_atts_removed("fg")),
                ("shared_atts", lambda f: dict(f.shared_atts)), ("fmtstr(f, bg='blue')", lambda f: fmtstr(f, bg="blue")), ("fmtstr(f, 'underline')", lambda f: fmtstr(f, "underline")),
                ("fmtstr(f, 'bold', 'RED', 'on_Blue')", lambda f: fmtstr(f, "bold", "RED", "on_Blue")), ("fmtstr(f, 'blink', 'invert')", lambda f: fmtstr(f, "blink", "invert")),
                ("fmtfuncs.underline(f)", lambda f: __import__("curtsies.fmtfuncs").fmtfuncs.underline(f)), ("fmtstr(f, style='bold')", lambda f: fmtstr(f, style="bold"))],
        "C15": [("upper", lambda f: f.upper()), ("ljust", lambda f: f.ljust(len(f) + 3)), ("center", lambda f: f.center(len(f) + 4, "*")), ("replace", lambda f: f.replace("a", "bb")),
                ("split", lambda f: f.split()), ("splitlines", lambda f: f.splitlines()), ("strip", lambda f: f.strip()), ("title", lambda f: f.title())],
        "C16": [("linesplit(f,7)", lambda f: linesplit(f, 7)), ("linesplit(f,2)", lambda f: linesplit(f, 2)), ("linesplit(str,20)", lambda f: linesplit(f.s, 20))],
        "C17": [("fmtstr(text)", lambda f: fmtstr(f.s)), ("fmtstr(str(f)+tail)", lambda f: fmtstr(str(f) + "\x1b[1;31mq\x1b[0m\x1b[?25l")), ("fmtstr(text, 'red')", lambda f: fmtstr(f.s, "red"))],
        "C19": [("repr", lambda f: repr(f)), ("hash", lambda f: hash(f)), ("f == f[:]", lambda f: f == f[:]), ("f == str(f)", lambda f: f == str(f)), ("f != f+'x'", lambda f: f != f + "x")],
    }
    return table[prop]


def check_repetition(acc, prop, reps=REPS, only=None):
    """Returns nothing; failures go to acc with signature '<prop>:result_changes_with_repetition:<op>'."""
    for vi, spec in enumerate(values()):
        if only is not None and vi != only:
            continue
        shown = C.show_spec(spec[:4])
        for label, fn in ops(prop):
            f = C.build(spec)
            case = {"value": {"characters": sum(len(t) for t, _ in spec), "first_runs": shown}, "op": label, "repetitions": reps}
            acc.case(True, key=("rep", prop, vi, label), sample=case)
            try:
                first = plain(fn(f))
            except Exception as ex:  # noqa
                first = ("exc", type(ex).__name__)
            for mode in ("same_object", "fresh_equal_objects"):
                for i in range(reps):
                    g = f if mode == "same_object" else C.build(spec)
                    try:
                        r = plain(fn(g))
                    except Exception as ex:  # noqa
                        r = ("exc", type(ex).__name__)
                    acc.transitions += 1
                    if r != first:
                        acc.failure("%s:result_changes_with_repetition:%s" % (prop, label.split("(")[0]), dict(case, mode=mode, call_number=i + 2), "first call %r, this call %r" % (str(first)[:200], str(r)[:200]))
                        break
                else:
                    continue
                break


_ALIVE = []


def pollute(n=3000):
    """Make the process a used one (deterministic)."""
    from curtsies.formatstring import FmtStr, fmtstr, linesplit

    styles = ("bold", "dark", "italic", "underline", "blink", "invert")
    keep = []
    for i in range(n):
        kw = {}
        if i % 9:
            kw["fg"] = 30 + i % 8
        if i % 7:
            kw["bg"] = 40 + (i // 8) % 8
        for k, st in enumerate(styles):
            if (i >> k) & 1:
                kw[st] = True
        text = "p%dq%s" % (i, "xy"[i % 2] * (i % 11))
        f = fmtstr(text, **kw)
        g = f + fmtstr(" %d" % i)
        s = str(g)
        len(g), g.width, hash(g), g.s, repr(g)
        g[1:], g[i % len(g)]
        FmtStr.from_str(s)
        list(g.width_aware_splitlines(4))
        linesplit(g, 5)
        g.splice("Z", 1)
        g.upper()
        g.copy_with_new_atts(bold=bool(i % 2))
        dict(g.shared_atts)
        g == f
        keep.append(g)
        keep.append(f)
    # one very long value through the same mill (total characters processed: several hundred thousand)
    big = fmtstr("lorem ipsum " * 20000, "red") + fmtstr("x" * 1000, "bold")
    FmtStr.from_str(str(big))
    big.width, len(big), hash(big)
    big[1000:200000].upper()
    _ALIVE.append(keep)  # thousands of FmtStr objects stay alive for the rest of the process
    return len(keep)


def shard(args):
    from mc.runner import Acc

    prop, seed, vi, used = args
    acc = Acc(seed=seed)
    if used:
        acc.add("polluted_process_shards")
        pollute()
    check_repetition(acc, prop, only=vi)
    return acc.export()


def run_into(ctx, rep, prop):
    """Adds the repetition family of `prop` to a check's report (one shard per value; every other shard in a used process)."""
    for d in ctx.pmap(shard, [(prop, ctx.seed, vi, vi % 2 == 1) for vi in range(len(values()))]):
        rep.merge(d, "repetition_%d_calls_same_object_and_fresh_equal_objects" % REPS)
    for d in ctx.pmap(twin_shard, [(prop, ctx.seed)]):
        rep.merge(d, "render_twins_with_different_run_boundaries")
    for d in ctx.pmap(failure_shard, [(prop, ctx.seed)]):
        rep.merge(d, "operations_after_failed_calls")
    for d in ctx.pmap(derived_shard, [(prop, ctx.seed)]):
        rep.merge(d, "copies_used_after_their_source")
    for d in ctx.pmap(container_shard, [(prop, ctx.seed)]):
        rep.merge(d, "returned_lists_and_dicts_edited_by_the_caller")
    if chains(prop):
        for d in ctx.pmap(chain_shard, [(prop, ctx.seed)]):
            rep.merge(d, "derivation_chains_of_%d_steps" % CHAIN_LEN)


def check_twins(acc, prop):
    """Render twins (cells.twin_pairs: equal terminal string, equal hash, different run boundaries), both alive: every operation of
    the property's menu on one, then on the other, in both orders - all four results must show the same cells (the operations' results
    are functions of the characters and their formatting, not of where the runs are cut)."""
    for pi, (sa, sb) in enumerate(C.twin_pairs()):
        for order in ("value_first", "twin_first"):
            a, b = C.build(sa), C.build(sb)
            hash(a), hash(b)
            first, second = (a, b) if order == "value_first" else (b, a)
            for label, fn in ops(prop):
                case = {"value": {"characters": len(a), "runs": len(sa), "twin_runs": len(sb), "first_runs": C.show_spec(sa[:4])}, "op": label, "order": order}
                acc.case(True, key=("twin", prop, pi, order, label), sample=case)
                acc.transitions += 2
                res = []
                for obj in (first, second, first):
                    try:
                        res.append(plain(fn(obj)))
                    except Exception as ex:  # noqa
                        res.append(("exc", type(ex).__name__))
                if prop == "C19" and label in ("repr", "hash"):
                    if label == "hash" and res[0] != res[1]:
                        acc.failure("C19:equal_but_hash_differs", case, "")
                    continue  # repr shows the run structure
                if prop == "C13":
                    res = [r[:4] if isinstance(r, tuple) else r for r in res]  # repr (5th view) shows the run structure
                if res[0] != res[1] or res[0] != res[2]:
                    which = "second" if res[0] != res[1] else "first again"
                    acc.failure("%s:result_depends_on_an_equal_looking_other_value:%s" % (prop, label.split("(")[0]), case, "%s differs: %r vs %r" % (which, str(res[0])[:160], str(res[1] if which == "second" else res[2])[:160]))


def twin_shard(args):
    from mc.runner import Acc

    prop, seed = args
    acc = Acc(seed=seed)
    check_twins(acc, prop)
    return acc.export()


# ---- long derivation chains ------------------------------------------------------------------------------------------------------

CHAIN_LEN = 80
PIECES = (("a", (("fg", 31),)), ("b", (("fg", 34),)), ("c", ()), ("d", (("bold", True),)), ("e", (("bold", True), ("fg", 31))), ("", (("fg", 32),)), ("fg", (("fg", 34),)), (" ", ()))


def _piece(k, as_str=False):
    t, a = PIECES[k % len(PIECES)]
    if as_str or (not a and k % 2):
        return t, [(c, ()) for c in t]
    return C.build(((t, a),)), [(c, C.norm_atts(dict(a))) for c in t]


def chains(prop):
    """name -> step function(k, f, cells) -> (new f, new cells). Each step applies to the RESULT of the previous one."""
    from curtsies.formatstring import fmtstr

    def append_only(k, f, cells):
        p, pc = _piece(k)
        return f.append(p), cells + pc

    def splice_mixed(k, f, cells):
        p, pc = _piece(k)
        m = k % 5
        if m == 0:
            return f.append(p), cells + pc
        if m == 1:
            i = len(cells) // 2
            return f.splice(p, i), cells[:i] + pc + cells[i:]
        if m == 2:
            return f.splice(p, 0), pc + cells
        if m == 3 and len(cells) >= 3:
            return f.splice("", 1, 2), cells[:1] + cells[2:]
        i = max(0, len(cells) - 1)
        return f.splice(p, i, i + 1), cells[:i] + pc + cells[i + 1 :]

    def add_right(k, f, cells):
        p, pc = _piece(k)
        return f + p, cells + pc

    def add_left(k, f, cells):
        p, pc = _piece(k)
        return p + f, pc + cells

    def add_and_cut(k, f, cells):
        p, pc = _piece(k)
        if k % 4 == 3 and len(cells) > 2:
            return f[1:], cells[1:]
        if k % 7 == 6 and len(cells) > 2:
            return f[:-1], cells[:-1]
        return f + p, cells + pc

    def join_chain(k, f, cells):
        p, pc = _piece(k)
        sep, sc = _piece(k + 3)
        if isinstance(sep, str):
            sep = fmtstr(sep)
        return sep.join([f, p]), cells + sc + pc

    ATT_STEPS = (("fg", 31), ("bold", True), ("fg", 34), ("bg", 41), ("bold", False), ("underline", True), ("bg", 44), ("underline", False), ("fg", 32))

    def restyle(k, f, cells):
        name, v = ATT_STEPS[k % len(ATT_STEPS)]
        p, pc = _piece(k)
        f2, c2 = f + p, cells + pc
        if k % 3 == 0:
            d = lambda a: C.norm_atts(dict(dict(a), **{name: v}))
            return f2.copy_with_new_atts(**{name: v}), [(c, d(a)) for c, a in c2]
        if k % 3 == 1:
            d = lambda a: C.norm_atts({x: y for x, y in dict(a).items() if x != name})
            return f2.new_with_atts_removed(name), [(c, d(a)) for c, a in c2]
        return f2, c2

    def rewrap(k, f, cells):
        # fmtstr() around the previous result, one more level at every step
        name, v = ATT_STEPS[k % len(ATT_STEPS)]
        p, pc = _piece(k)
        if v is False:
            return f + p, cells + pc
        d = lambda a: C.norm_atts(dict(dict(a), **{name: v}))
        return fmtstr(f + p, **{name: v}), [(c, d(a)) for c, a in cells + pc]

    def pad_and_case(k, f, cells):
        p, pc = _piece(k)
        if k % 3 == 0:
            return f + p, cells + pc
        # a delegated str method keeps the formatting that ALL characters share (the property's reading), nothing else
        shared = tuple(sorted(set.intersection(*[set(a) for _, a in cells]))) if cells else ()
        if k % 3 == 1:
            return f.upper() if k % 2 else f.lower(), [((c.upper() if k % 2 else c.lower()), shared) for c, a in cells]
        return f.replace("a", "A"), [("A" if c == "a" else c, shared) for c, a in cells]

    table = {
        "C09": {"append_only": append_only, "splice_mixed": splice_mixed},
        "C06": {"add_right": add_right, "add_left": add_left, "add_and_cut": add_and_cut, "join_chain": join_chain},
        "C14": {"restyle": restyle, "rewrap": rewrap},
        "C01": {"add_right": add_right, "splice_mixed": splice_mixed, "restyle": restyle},
        "C05": {"add_right": add_right, "splice_mixed": splice_mixed, "restyle": restyle},
        "C13": {"append_only": append_only, "add_and_cut": add_and_cut, "restyle": restyle},
        "C10": {"add_right": add_right, "splice_mixed": splice_mixed},
        "C19": {"add_right": add_right, "append_only": append_only},
    }
    return table.get(prop, {})


def check_chains(acc, prop, n=CHAIN_LEN):
    from curtsies.formatstring import FmtStr
    from mc import sgr

    for name, step in sorted(chains(prop).items()):
        for observe in (False, True):
            f = C.build((("s", (("fg", 31),)), ("t", ())))
            cells = C.cells(f)
            alive = []
            for k in range(n):
                case = {"chain": name, "step": k + 1, "observed_after_every_step": observe}
                acc.case(True, key=("chain", prop, name, observe, k), sample=case)
                acc.transitions += 1
                before = (f, C.snapshot(f)) if observe else None
                try:
                    f2, cells = step(k, f, cells)
                except Exception as ex:  # noqa
                    acc.failure("%s:chain_raises:%s" % (prop, type(ex).__name__), case, repr(ex))
                    break
                if before is not None and C.snapshot(before[0]) != before[1]:
                    acc.failure("%s:operand_changed" % prop, case, "the previous value of the chain changed when the next one was derived")
                    break
                f = f2
                alive.append(f)
                if not observe and k < n - 1 and k % 10 != 9:
                    continue  # the unobserved variant looks only at every 10th value and the last
                got = C.cells(f)
                if got != cells or f.s != "".join(c for c, _ in cells) or len(f) != len(cells):
                    acc.failure("%s:chain_result" % prop, case, "cells %r..., expected %r..." % (got[-6:], cells[-6:]))
                    break
                if prop in ("C01", "C05", "C13", "C19"):
                    shown = sgr.interpret(str(f))[0]
                    if shown != cells:
                        acc.failure("%s:chain_display" % prop, case, "displays %r..." % (shown[-6:],))
                        break
                if prop == "C05" and C.cells(FmtStr.from_str(str(f))) != cells:
                    acc.failure("C05:roundtrip_formatting", case, "")
                    break
                if prop == "C10":
                    from mc.props import c10

                    if f.width != sum(c10.W[c] for c, _ in cells):
                        acc.failure("C10:width", case, "")
                        break
                if prop == "C19":
                    g = C.build(tuple((c, a) for c, a in cells))
                    if (f == g) is not (str(f) == str(g)) or (f == g and hash(f) != hash(g)):
                        acc.failure("C19:eq_vs_terminal_string", case, "")
                        break


def chain_shard(args):
    from mc.runner import Acc

    prop, seed = args
    acc = Acc(seed=seed)
    check_chains(acc, prop)
    return acc.export()


# ---- histories with FAILED calls ------------------------------------------------------------------------------------------------


def failing_calls():
    """(label, fn(f)) - calls that raise by contract or by type error, some of them half-way through their work."""
    from curtsies.formatstring import Chunk, FmtStr, fmtstr, linesplit

    bad = lambda: FmtStr(Chunk("a\uff25b", {"fg": 31}), Chunk("\uff25 ", {"fg": 91}), Chunk("cc dd", {}))  # an attribute value nothing can render
    return [
        ("splice(x, 1.5)", lambda f: f.splice("Z", 1.5)), ("splice(x, 2, 3.5)", lambda f: f.splice("Z", min(2, len(f)), 3.5)), ("splice(x, len/2)", lambda f: f.splice(fmtstr("Y", "red"), len(f) / 2)),
        ("f[1.5]", lambda f: f[1.5]), ("f['a']", lambda f: f["a"]), ("f + 3", lambda f: f + 3), ("3 + f", lambda f: 3 + f), ("f * 'a'", lambda f: f * "a"),
        ("f.join(3)", lambda f: f.join(3)), ("f.join([f, 3, f])", lambda f: f.join([f, 3, f])), ("f.join(generator that raises)", lambda f: f.join(x for x in [f, "k", 1 // 0])),
        ("width_aware_splitlines(0)", lambda f: list(f.width_aware_splitlines(0))), ("width_aware_slice('a')", lambda f: f.width_aware_slice("a")),
        ("width_aware_splitlines(2) of an unrenderable value", lambda f: list(bad().width_aware_splitlines(2))), ("half a wrap of f then an error", lambda f: [next(f.width_aware_splitlines(3)), 1 // 0]),
        ("linesplit of a value whose whitespace cannot be rendered", lambda f: linesplit(FmtStr(Chunk("alpha beta"), Chunk(" ", {"fg": 91}), Chunk("gamma"), Chunk("  ", {"fg": 91}), Chunk("d")), 40)),
        ("ljust of a value with an unrenderable shared attribute", lambda f: str(FmtStr(Chunk("ab", {"fg": 91})).ljust(5))),
        ("linesplit(f, 0)", lambda f: linesplit(f, 0)), ("linesplit(3, 5)", lambda f: linesplit(3, 5)), ("linesplit(f, 'a')", lambda f: linesplit(f, "a")),
        ("fmtstr(3)", lambda f: fmtstr(3)), ("fmtstr(f, 'nocolor')", lambda f: fmtstr(f, "nocolor")), ("fmtstr(f, 'red', fg='blue')", lambda f: fmtstr(f, "red", fg="blue")),
        ("copy_with_new_atts(fg='nocolor') rendered", lambda f: str(f.copy_with_new_atts(fg="nocolor"))), ("f[0] = 'x'", lambda f: f.__setitem__(0, "x")), ("f.ljust('a')", lambda f: f.ljust("a")),
        ("width of a control character", lambda f: (f + "\x01").width), ("from_str of an unfinished sequence", lambda f: FmtStr.from_str(str(f) + "\x1b[")),
        ("f.center()", lambda f: f.center()), ("f.split(3)", lambda f: f.split(3)), ("f.split('(', regex=True)", lambda f: f.split("(", regex=True)),
        # rejected spellings of names that are valid in another spelling (a name table filled on the way to the rejection)
        ("fmtstr(f, 'Underline')", lambda f: fmtstr(f, "Underline")), ("fmtstr(f, 'BOLD')", lambda f: fmtstr(f, "BOLD")), ("fmtstr(f, 'on_nocolor')", lambda f: fmtstr(f, "on_nocolor")),
        ("fmtstr(f, 'red', 'blue')", lambda f: fmtstr(f, "red", "blue")), ("fmtstr(f, 'Blink', 'on_Blue', 'RED')", lambda f: fmtstr(f, "Blink", "on_Blue", "RED")),
        ("fmtstr(f, style='Bold')", lambda f: fmtstr(f, style="Bold")), ("fmtstr(f, fg='Red')", lambda f: str(fmtstr(f, fg="Red"))), ("fmtstr(f, 'invert', Invert=True)", lambda f: fmtstr(f, "invert", Invert=True)),
    ]


class _TimeLimit:
    """A failing call is given 3 s (a changed library may loop on the invalid arguments); only usable in a main thread."""

    class Expired(BaseException):
        pass

    def __init__(self, seconds):
        self.seconds = seconds
        self.armed = False

    def __enter__(self):
        import signal
        import threading

        if threading.current_thread() is threading.main_thread():
            def on_alarm(signum, frame):
                raise _TimeLimit.Expired()

            self.old = signal.signal(signal.SIGALRM, on_alarm)
            signal.setitimer(signal.ITIMER_REAL, self.seconds)
            self.armed = True
        return self

    def __exit__(self, *exc):
        import signal

        if self.armed:
            signal.setitimer(signal.ITIMER_REAL, 0)
            signal.signal(signal.SIGALRM, self.old)
        return False


def check_after_failures(acc, prop):
    """Every operation of the property's menu right after every failing call (on the same object), and after all of them in a row:
    the result must be what it was before anything failed (module-level scratch state must not survive an exception)."""
    fails = failing_calls()
    for vi, spec in enumerate(values()):
        if vi in (4, 7):
            continue
        shown = C.show_spec(spec[:4])
        menu = ops(prop)
        base = []
        for label, fn in menu:
            try:
                base.append(plain(fn(C.build(spec))))
            except Exception as ex:  # noqa
                base.append(("exc", type(ex).__name__))
        f = C.build(spec)
        for fl, ffn in fails + [("all of them in a row", None)]:
            for (label, fn), want in zip(menu, base):
                raised = None
                for one_label, one in (fails if ffn is None else [(fl, ffn)]):
                    try:
                        with _TimeLimit(3.0):
                            one(f)
                    except _TimeLimit.Expired:
                        raised = "did not return within 3 s"
                        acc.add("failing_calls_that_did_not_return")
                    except BaseException as ex:  # noqa
                        raised = type(ex).__name__
                case = {"value": {"characters": sum(len(t) for t, _ in spec), "first_runs": shown}, "failed_call_before": fl, "it_raised": raised, "op": label}
                acc.case(True, key=("afterfail", prop, vi, fl, label), sample=case)
                acc.transitions += 1
                for who, obj in (("the same object", f), ("a fresh equal object", C.build(spec))):
                    try:
                        r = plain(fn(obj))
                    except Exception as ex:  # noqa
                        r = ("exc", type(ex).__name__)
                    if r != want:
                        acc.failure("%s:result_differs_after_a_failed_call:%s" % (prop, label.split("(")[0]), dict(case, on=who), "before any failure %r, now %r" % (str(want)[:160], str(r)[:160]))
                        break


def failure_shard(args):
    from mc.runner import Acc

    prop, seed = args
    acc = Acc(seed=seed)
    check_after_failures(acc, prop)
    return acc.export()


# ---- derive after use -----------------------------------------------------------------------------------------------------------


def check_derived_after_use(acc, prop):
    """An operation on f, then a copy of f with other formatting / the same formatting / one attribute removed, then the SAME operation
    on the copy (and on f again): the copy's result must equal the result for a value built from scratch with the copy's runs (memos
    handed from a value to its copies must not carry the old formatting or text along)."""
    from curtsies.formatstring import Chunk, FmtStr, fmtstr

    derive = [
        ("copy_with_new_atts(fg=cyan, italic)", lambda f: f.copy_with_new_atts(fg=36, italic=True)), ("new_with_atts_removed(fg, bold)", lambda f: f.new_with_atts_removed("fg", "bold")),
        ("copy()", lambda f: f.copy()), ("fmtstr(f, bg='blue')", lambda f: fmtstr(f, bg="blue")), ("copy_with_new_str", lambda f: f.copy_with_new_str("qrs\uff25t")), ("f[:]", lambda f: f[:]),
        ("f + ''", lambda f: f + ""), ("f.splice('', 0)", lambda f: f.splice("", 0)),
    ]
    for vi, spec in enumerate(values()):
        if vi == 4:
            continue
        shown = C.show_spec(spec[:4])
        for label, fn in ops(prop):
            for dl, dfn in derive:
                f = C.build(spec)
                case = {"value": {"characters": sum(len(t) for t, _ in spec), "first_runs": shown}, "op": label, "derived_by": dl}
                acc.case(True, key=("derived", prop, vi, label, dl), sample=case)
                acc.transitions += 1
                try:
                    first = plain(fn(f))
                except Exception as ex:  # noqa
                    first = ("exc", type(ex).__name__)
                try:
                    g = dfn(f)
                except Exception:  # noqa
                    continue
                scratch = FmtStr(*[Chunk(str(c.s), dict(c.atts)) for c in g.chunks])
                res = []
                for obj in (g, scratch, f):
                    try:
                        res.append(plain(fn(obj)))
                    except Exception as ex:  # noqa
                        res.append(("exc", type(ex).__name__))
                if prop == "C19" and label in ("repr", "hash"):
                    continue
                if prop == "C13":
                    res = [r[:4] + r[5:] if isinstance(r, tuple) and len(r) > 4 else r for r in res]
                    first_cmp = first[:4] + first[5:] if isinstance(first, tuple) and len(first) > 4 else first
                else:
                    first_cmp = first
                if res[0] != res[1]:
                    acc.failure("%s:copy_inherits_state_of_its_source:%s" % (prop, label.split("(")[0]), case, "the copy gives %r, a value built from scratch with the same runs gives %r" % (str(res[0])[:160], str(res[1])[:160]))
                elif res[2] != first_cmp:
                    acc.failure("%s:result_changes_after_a_copy_was_used:%s" % (prop, label.split("(")[0]), case, "first %r, after using the copy %r" % (str(first_cmp)[:160], str(res[2])[:160]))


def derived_shard(args):
    from mc.runner import Acc

    prop, seed = args
    acc = Acc(seed=seed)
    check_derived_after_use(acc, prop)
    return acc.export()


# ---- containers handed out by the library belong to the caller ------------------------------------------------------------------


def _wreck(x):
    """Edits a returned list / dict in place, deeply (one level)."""
    try:
        if isinstance(x, list):
            for y in x:
                if isinstance(y, (list, dict)):
                    _wreck(y)
            x.reverse()
            x.append("JUNK")
            if len(x) > 2:
                del x[1]
        elif isinstance(x, dict):
            x["fg"] = 35
            x["JUNK"] = True
            x.pop("bold", None)
    except Exception:  # noqa
        pass


def check_returned_containers(acc, prop):
    """Lists and dicts returned by public calls (divides, shared_atts, split / splitlines / linesplit results, escseqparse.parse) are
    edited in place by the caller; afterwards every operation of the property's menu - on the same value and on a fresh equal one - must
    give what it gave before."""
    from curtsies import escseqparse
    from curtsies.formatstring import linesplit

    getters = [
        ("f.divides", lambda f: f.divides), ("f.shared_atts", lambda f: f.shared_atts), ("f.split(' ')", lambda f: f.split(" ")), ("f.splitlines()", lambda f: f.splitlines()),
        ("linesplit(f, 5)", lambda f: linesplit(f, 5)), ("linesplit(f.s, 5)", lambda f: linesplit(f.s, 5)), ("escseqparse.parse(str(f))", lambda f: escseqparse.parse(str(f))),
        ("escseqparse.parse(f.s)", lambda f: escseqparse.parse(f.s)), ("list(f.width_aware_splitlines(3))", lambda f: list(f.width_aware_splitlines(3))),
    ]
    for vi, spec in enumerate(values()):
        if vi in (4, 7):
            continue
        shown = C.show_spec(spec[:4])
        menu = ops(prop)
        base = []
        for label, fn in menu:
            try:
                base.append(plain(fn(C.build(spec))))
            except Exception as ex:  # noqa
                base.append(("exc", type(ex).__name__))
        for gl, g in getters:
            f = C.build(spec)
            for rnd in range(2):  # the second round edits what a possibly cached call hands out again
                try:
                    _wreck(g(f))
                except Exception:  # noqa
                    pass
            for (label, fn), want in zip(menu, base):
                case = {"value": {"characters": sum(len(t) for t, _ in spec), "first_runs": shown}, "edited_in_place": "the result of " + gl, "op": label}
                acc.case(True, key=("owned", prop, vi, gl, label), sample=case)
                acc.transitions += 1
                for who, obj in (("the same object", f), ("a fresh equal object", C.build(spec))):
                    try:
                        r = plain(fn(obj))
                    except Exception as ex:  # noqa
                        r = ("exc", type(ex).__name__)
                    if r != want:
                        acc.failure("%s:result_differs_after_a_returned_container_was_edited:%s" % (prop, label.split("(")[0]), dict(case, on=who), "before %r, now %r" % (str(want)[:160], str(r)[:160]))
                        break


def container_shard(args):
    from mc.runner import Acc

    prop, seed = args
    acc = Acc(seed=seed)
    check_returned_containers(acc, prop)
    return acc.export()
