"""Harness for window checks: a pty for the size blessed reads (TIOCGWINSZ), a proxy out_stream that feeds the reference terminal
directly, generic snapshot/restore of a window's plain attributes (DESIGN.md 3.3/3.4)."""
import fcntl
import os
import struct
import termios

from mc.term import Term


class Proxy:
    """out_stream: writes go straight into the current reference terminal; fileno() is a pty slave so that blessed's
    height/width go through their production path (TIOCGWINSZ)."""

    encoding = "utf-8"

    def __init__(self):
        self.master, self.slave = os.openpty()
        self.term = None
        self.fail_after = None  # fault injection: raise OSError on the n-th write from now
        self.writes = 0
        self.log = None  # when a list: every string written is appended (for the pyte cross-check)

    def set_size(self, h, w):
        fcntl.ioctl(self.slave, termios.TIOCSWINSZ, struct.pack("HHHH", h, w, 0, 0))

    def write(self, s):
        self.writes += 1
        if self.fail_after is not None:
            self.fail_after -= 1
            if self.fail_after < 0:
                self.fail_after = None
                raise OSError(5, "injected write error")
        if self.log is not None:
            self.log.append(s)
        self.term.feed(s)
        return len(s)

    def flush(self):
        pass

    def fileno(self):
        return self.slave

    def isatty(self):
        return True

    def close(self):
        os.close(self.master)
        os.close(self.slave)


PLAIN = (int, bool, str, type(None), float)


def snapshot(win):
    out = {}
    for k, v in vars(win).items():
        if isinstance(v, PLAIN):
            out[k] = v
        elif isinstance(v, dict):
            out[k] = dict(v)
    return out


def restore(win, snap):
    for k, v in snap.items():
        setattr(win, k, dict(v) if isinstance(v, dict) else v)
    for k in [k for k, v in vars(win).items() if (isinstance(v, PLAIN) or isinstance(v, dict)) and k not in snap]:
        delattr(win, k)


def canon_window(snap):
    items = []
    for k in sorted(snap):
        v = snap[k]
        if isinstance(v, dict):
            v = tuple(sorted((r, None if line is None else str(line), None if line is None else len(line), isinstance(line, str)) for r, line in v.items()))
        items.append((k, v))
    return tuple(items)
