"""Process-wide history: run a function in a process of its own.

Module-level memo tables (functools caches, dicts keyed by attribute tuples, ...) live as long as the process; whichever call fills
an entry first decides what later calls see.  The pool workers of mc.runner are reused for many shards, so "the very first call in
the process" can only be controlled by starting a new interpreter (multiprocessing 'spawn') for every order that is to be compared.
"""
import multiprocessing
import traceback


def _child(conn, fn, args):
    try:
        from mc import runner

        runner.setup_repo()  # the same working tree as the parent, or an error
        conn.send(("ok", fn(*args)))
    except BaseException:  # noqa
        conn.send(("error", traceback.format_exc()))
    finally:
        conn.close()


def in_fresh_process(fn, *args, timeout=300):
    """fn(*args) in a newly started interpreter (spawn: nothing of this process's history is inherited); fn must be a module-level
    function and the result plain data."""
    ctx = multiprocessing.get_context("spawn")
    parent, child = ctx.Pipe(duplex=False)
    p = ctx.Process(target=_child, args=(child, fn, args))
    p.start()
    child.close()
    try:
        if not parent.poll(timeout):
            raise RuntimeError("fresh process did not answer within %d s" % timeout)
        kind, value = parent.recv()
    finally:
        p.join(5)
        if p.is_alive():
            p.kill()
    if kind == "error":
        raise RuntimeError("fresh process failed:\n" + value)
    return value


# ---- equal-but-distinguishable attribute values ----------------------------------------------------------------------------------
# 0 == False and 1 == True (same hash), yet FmtStr distinguishes them (`v is False` means "absent", the integer 0 does not): any
# table keyed by the attribute items conflates the two spellings, and the first one rendered in the process wins.

STYLES = ("bold", "dark", "italic", "underline", "blink", "invert")
TWINS = ((False, 0), (True, 1))
COLOURS = (None, ("fg", "red"), ("bg", "blue"), ("fg", 32))


def twin_cases():
    out = []
    for st in STYLES:
        for col in COLOURS:
            for boolean, integer in TWINS:
                out.append((st, col, boolean, integer))
    # colour numbers given as int and as an equal float (31 == 31.0, same hash); a style switched on by a number that is also a
    # colour code (bold=31) next to the colour itself
    for name, num in (("fg", 31), ("bg", 44), ("fg", 37), ("bg", 40)):
        out.append((name, None, num, float(num)))
        out.append((name, ("bold", True), num, float(num)))
    for st in ("bold", "underline", "invert"):
        out.append((st, ("fg", 31), True, 31))
        out.append((st, ("bg", 44), True, 44))
    return out


def render_twins(order):
    """For every (style, colour, twin pair): build both spellings and render them - the bool spelling first (order 'bool_first'),
    the int spelling first ('int_first'), or each in the order given by the parity of its index ('mixed').  Returns plain data:
    for each case the two terminal strings, and the cells from_str() recovers from them."""
    from curtsies.formatstring import FmtStr, fmtstr
    from mc import cells as C

    out = []
    for k, (st, col, boolean, integer) in enumerate(twin_cases()):
        kw_b, kw_i = {st: boolean}, {st: integer}
        if col:
            kw_b[col[0]] = col[1]
            kw_i[col[0]] = col[1]
        fb, fi = fmtstr("status", **kw_b), fmtstr("!", **kw_i)
        first_bool = order == "bool_first" or (order == "mixed" and k % 2 == 0)
        if first_bool:
            sb, si = str(fb), str(fi)
        else:
            si, sb = str(fi), str(fb)
        # derived values and a second object with the same attribute set, rendered afterwards
        fb2 = fmtstr("again", **kw_b)
        out.append({"case": [st, list(col) if col else None, repr(boolean), repr(integer)], "bool": sb, "int": si, "bool_again": str(fb2), "bool_sum": str(fb + fb2),
                    "bool_cells": [[c, [list(x) for x in a]] for c, a in C.cells(fb)], "bool_back": [[c, [list(x) for x in a]] for c, a in C.cells(FmtStr.from_str(sb))]})
    return out


ORDERS = ("bool_first", "int_first", "mixed")


def twin_findings():
    """Runs render_twins in one fresh process per order. Returns (number of comparisons, findings) with findings =
    [(kind, case, message)]; kind in {'order_dependent', 'roundtrip', 'terminal_meaning'}."""
    from mc import sgr

    results = {o: in_fresh_process(render_twins, o) for o in ORDERS}
    findings = []
    n = 0
    base = results[ORDERS[0]]
    for k, rec in enumerate(base):
        case = {"style_colour_bool_int": rec["case"]}
        for o in ORDERS[1:]:
            other = results[o][k]
            for field in ("bool", "int", "bool_again", "bool_sum"):
                n += 1
                if other[field] != rec[field]:
                    findings.append(("order_dependent", dict(case, field=field, orders=[ORDERS[0], o]), "%r when the bool spelling is rendered first, %r in order %s" % (rec[field], other[field], o)))
        for o in ORDERS:
            r = results[o][k]
            n += 2
            if r["bool_back"] != r["bool_cells"]:
                findings.append(("roundtrip", dict(case, order=o), "from_str(%r) gives %r, the value is %r" % (r["bool"], r["bool_back"], r["bool_cells"])))
            shown = [[c, [list(x) for x in a]] for c, a in sgr.interpret(r["bool"])[0]]
            if shown != r["bool_cells"]:
                findings.append(("terminal_meaning", dict(case, order=o), "a terminal shows %r for %r, the value is %r" % (shown, r["bool"], r["bool_cells"])))
    return n, findings
