"""The cell-list reference model (DESIGN.md 3.1).

alpha(f) = [(character, normalised attributes)] read from the runs of a FmtStr; a plain str abstracts to
unformatted cells.  Every FmtStr operation has a one-line meaning on cell lists (slicing, concatenation,
...), which is what the property modules compare against.

The attribute tables below are typed in again on purpose: they share nothing with
curtsies.termformatconstants, so a change to the library's tables cannot silently change the oracle.
"""
import itertools

COLORS = ("black", "red", "green", "yellow", "blue", "magenta", "cyan", "gray")
FG = {name: 30 + i for i, name in enumerate(COLORS)}
BG = {name: 40 + i for i, name in enumerate(COLORS)}
STYLE_CODES = {"bold": 1, "dark": 2, "italic": 3, "underline": 4, "blink": 5, "invert": 7}
STYLE_NAMES = tuple(STYLE_CODES)


def norm_atts(d):
    """Canonical form of an attribute mapping: sorted tuple of (name, value); False/None == absent."""
    out = []
    for k, v in d.items():
        if v is False or v is None:
            continue
        if k in STYLE_CODES:
            v = True
        out.append((k, v))
    return tuple(sorted(out))


def cells(x):
    """alpha: FmtStr | str -> list of (char, atts)."""
    if isinstance(x, str):
        return [(c, ()) for c in x]
    out = []
    for chunk in x.chunks:
        a = norm_atts(chunk.atts)
        for c in chunk.s:
            out.append((c, a))
    return out


def spec_cells(spec):
    """Expected cells of a value described by a spec = sequence of (text, attribute-dict-items)."""
    out = []
    for text, atts in spec:
        a = norm_atts(dict(atts))
        out.extend((c, a) for c in text)
    return out


def build(spec):
    """Build the FmtStr a spec describes through the public API: fmtstr(text, **atts) and +."""
    from curtsies.formatstring import FmtStr, fmtstr

    f = None
    parts = []
    for text, atts in spec:
        part = fmtstr(text, **dict(atts))
        parts.append(part)
        f = part if f is None else f + part
    if f is None:
        return FmtStr()
    if [c.s for c in f.chunks] != [c.s for part in parts for c in part.chunks]:
        # `+` did not keep the runs of its operands apart (it folded or dropped one): the universe must still hold the
        # layout the spec names, or every check that builds its operands this way silently loses the values with empty or
        # adjacent runs.  Put the runs of the parts side by side without going through `+`.
        f = FmtStr(*[c for part in parts for c in part.chunks])
    return f


P3 = (
    (),
    (("fg", 31),),
    (("bold", True), ("fg", 34)),
)

P2 = ((), (("fg", 31),))

LETTERS = "abcdefghijklmnopqrstuvwxyz"


def layouts(k, L, palette=P3, letters=LETTERS, min_runs=0):
    """U_layout(k, L, P): every run layout with 0..k runs, run lengths 0..L, attributes from the palette,
    every character distinct (a, b, c, ... in order).  Yields specs (tuples of (text, atts))."""
    for r in range(min_runs, k + 1):
        for lens in itertools.product(range(L + 1), repeat=r):
            texts = []
            pos = 0
            for n in lens:
                texts.append(letters[pos : pos + n])
                pos += n
            for pal in itertools.product(palette, repeat=r):
                yield tuple(zip(texts, pal))


def cuts(text, max_runs=3, palette=P3, empties=True):
    """Every way of cutting `text` into 1..max_runs consecutive runs (empty runs allowed when
    `empties`), with every palette assignment.  Yields specs."""
    n = len(text)
    seen = set()
    for r in range(1, max_runs + 1):
        # r runs = r-1 cut points, non-decreasing (equal points = empty run)
        for pts in itertools.combinations_with_replacement(range(n + 1), r - 1):
            bounds = (0,) + pts + (n,)
            texts = tuple(text[a:b] for a, b in zip(bounds, bounds[1:]))
            if not empties and any(t == "" for t in texts) and r > 1:
                continue
            if texts in seen:
                continue
            seen.add(texts)
            for pal in itertools.product(palette, repeat=r):
                yield tuple(zip(texts, pal))


def show_spec(spec):
    return [[t, dict(a)] for t, a in spec]


def show_cells(cs):
    return [[c, dict(a)] for c, a in cs]


def snapshot(f):
    """Everything observable about a value that C09/C13 require to stay unchanged (plain data)."""
    return (tuple(cells(f)), f.s, str(f), len(f), len(f.chunks))


REPEAT_HOWS = ("f*2", "f+f", "f.join([f,f])")


def build_repeated(spec, how):
    """Values in which the *same run objects* occur more than once (what f * n, f + f and join produce):
    returns (value, expected cells).  Identity-based shortcuts in the library only show on such values."""
    f = build(spec)
    fc = spec_cells(spec)
    if how == "f*2":
        return f * 2, fc * 2
    if how == "f+f":
        return f + f, fc + fc
    return f.join([f, f]), fc * 3


# ---- values just outside "small": long runs, many runs, unusual characters -----------------------------------------------------
EXOTIC_TEXTS = (
    "tab\there", "cr\rlf\r\n", "nul\x00del\x7f", "non-bmp \U0001f600\U00010000", "zwj a\u200db\u200d", "rtl \u200f\u05d0\u202e", "quote'\"\\",
    "caf\udce9.txt", "\ud800lone", "x" * 17, "ab" * 16, "line1\nline2\n", " lead and trail ", "\u00e9\u0301\u00df", "[0m[31m", "a;b;c", "%s {} %d",
)


def exotic_specs():
    """A fixed list of run layouts beyond the small universes: 5, 8, 16, 17 and 33 runs, run lengths up to 32, unusual characters,
    repeated identical runs, alternating empty runs.  Every character position is still identifiable (texts differ per run)."""
    pal = (
        (), (("fg", 31),), (("bold", True), ("fg", 34)), (("bg", 45),), (("underline", True),), (("bg", 42), ("fg", 33), ("invert", True)), (("dark", True), ("italic", True)), (("blink", True),),
    )
    out = []
    for nruns in (5, 8, 16, 17, 33):
        for ln in (1, 2):
            spec = []
            for i in range(nruns):
                ch = LETTERS[i % 26] if i < 26 else LETTERS[i % 26].upper()
                spec.append((ch * ln, pal[i % len(pal)]))
            out.append(tuple(spec))
        # every other run empty
        spec = []
        for i in range(nruns):
            spec.append(("" if i % 2 else LETTERS[i % 26], pal[(i * 3) % len(pal)]))
        out.append(tuple(spec))
    for ln in (5, 8, 16, 17, 32):
        out.append((("a" * ln, pal[1]), ("b" * ln, pal[3])))
        out.append((("q" * ln, ()),))
        out.append((("m" * ln, pal[2]), ("", pal[1]), ("n" * (ln - 1), pal[2])))
    for k, t in enumerate(EXOTIC_TEXTS):
        out.append(((t, pal[k % len(pal)]),))
        half = len(t) // 2
        out.append(((t[:half], pal[(k + 1) % len(pal)]), (t[half:], pal[(k + 2) % len(pal)])))
    # identical runs next to each other (equal but distinct objects)
    out.append((("ab", pal[1]), ("ab", pal[1]), ("ab", pal[1])))
    out.append((("-", ()), ("-", pal[1]), ("-", ()), ("-", pal[1]), ("-", ())))
    return out


def boundary_points(spec):
    """Index values worth trying on a long value: around 0, around every run boundary, around the end, and their negative twins."""
    n = sum(len(t) for t, _ in spec)
    pts = {0, 1, 2, n - 2, n - 1, n, n + 1, n + 2, n // 2}
    pos = 0
    for t, _ in spec:
        pos += len(t)
        pts.update((pos - 1, pos, pos + 1))
    pts = {p for p in pts if -1 <= p <= n + 2}
    pts |= {p - n for p in pts if p <= n} | {-n - 1, -n - 2, -1}
    return sorted(pts)


def huge_specs():
    """A few values far beyond small: hundreds of runs (with empty runs of different formatting in between), thousands of characters.
    Code paths that only switch on above a size threshold (fast paths, caches with a minimum size) are reached only by such values."""
    pal = ((("bold", True), ("bg", 41), ("fg", 34)), (("bold", True), ("bg", 41), ("fg", 34), ("underline", True)))
    out = []
    for nruns in (61, 130, 300):
        spec = []
        for i in range(nruns):
            spec.append((LETTERS[i % 26] + str(i % 10), pal[0]))
            spec.append(("", () if i % 2 else (("fg", 32),)))  # empty runs that lack the shared formatting
        out.append(tuple(spec))
    out.append(tuple(("w%d " % i, pal[i % 2]) for i in range(257)))
    out.append((("x" * 5000, pal[0]),))
    out.append((("ab " * 700, ()), ("Z", pal[1])))
    return out


SCALE_SIZES = tuple(sorted(set(range(34, 130)) | set(range(130, 1300, 13)) | {1500, 2049, 2501, 3333, 5001}))
SCALE_SIZES_THOROUGH = tuple(sorted(set(range(34, 400)) | set(range(400, 2700, 7)) | {3333, 5001, 10007, 20011}))
_SCALE_PAL = ((("fg", 31),), (("bold", True), ("fg", 34)), (), (("bg", 45), ("underline", True)))


def scale_spec(n, shape):
    """A value of exactly n characters. shape: 'one' (one run), 'runs7' (runs of 7 in 4 formats), 'unit_runs' (n runs of one
    character each, two formats alternating, an empty run after every 5th), 'words' (words of 1..9 letters separated by single spaces,
    formats change every 3 words), 'wide' (ASCII, fullwidth, combining and CJK characters mixed, runs of 5)."""
    if shape == "one":
        return ((("abcdefghij" * (n // 10 + 1))[:n], _SCALE_PAL[0]),)
    if shape == "runs7":
        text = ("abcdefghijklmnopqrstuvw" * (n // 23 + 1))[:n]
        return tuple((text[i : i + 7], _SCALE_PAL[(i // 7) % 4]) for i in range(0, n, 7))
    if shape == "unit_runs":
        out = []
        for i in range(n):
            out.append((LETTERS[i % 26], _SCALE_PAL[i % 2]))
            if i % 5 == 4:
                out.append(("", _SCALE_PAL[3]))
        return tuple(out)
    if shape == "words":
        words, total, k = [], 0, 0
        while total < n:
            w = LETTERS[k % 26] * (1 + (k * 7) % 9) + " "
            words.append(w)
            total += len(w)
            k += 1
        text = "".join(words)[:n]
        out, pos, k = [], 0, 0
        for w in words:
            piece = text[pos : pos + len(w)]
            if piece:
                out.append((piece, _SCALE_PAL[(k // 3) % 4]))
            pos += len(w)
            k += 1
        return tuple(out)
    if shape == "wide":
        text = ("aＥ\u0300漢b cＤe\u0301" * (n // 10 + 1))[:n]
        return tuple((text[i : i + 5], _SCALE_PAL[(i // 5) % 3]) for i in range(0, n, 5))
    if shape == "wide_word":
        # one unbroken word of ASCII, fullwidth, CJK and combining characters, a new run every 5 characters
        text = ("aＥ\u0300漢bＤe\u0301x" * (n // 9 + 1))[:n]
        return tuple((text[i : i + 5], _SCALE_PAL[(i // 5) % 4]) for i in range(0, n, 5))
    if shape == "astral":
        # characters beyond the BMP: wide (emoji, CJK extension B), zero-width (musical combining mark, variation selector), ordinary
        text = ("a\U0001f600\U00020000b\U0001d167c\U00010400\U000e0100 d" * (n // 10 + 1))[:n]
        return tuple((text[i : i + 4], _SCALE_PAL[(i // 4) % 4]) for i in range(0, n, 4))
    if shape == "dense_marks":
        # two combining marks on every base letter: three characters per column
        text = ("e\u0301\u0300o\u0308\u0304" * (n // 6 + 1))[:n]
        if n % 2:
            return ((text, _SCALE_PAL[0]),)
        return tuple((text[i : i + 50], _SCALE_PAL[(i // 50) % 3]) for i in range(0, n, 50))
    if shape == "plain_stretches":
        # formatted words separated by unformatted stretches (which render without any escape sequence)
        out, pos, k = [], 0, 0
        while pos < n:
            piece = (LETTERS[k % 26] * 3)[: n - pos]
            out.append((piece, _SCALE_PAL[k % 2]))
            pos += len(piece)
            if pos < n:
                gap = (" = " if k % 3 else " + (x) ")[: n - pos]
                out.append((gap, ()))
                pos += len(gap)
            k += 1
        return tuple(out)
    raise ValueError(shape)


def render_twin(spec):
    """The same characters and formatting, the same terminal string, but different run boundaries: every unformatted run is cut in
    two (at a position that varies from run to run) and an empty unformatted run is put in front.  FmtStr compares and hashes by its
    terminal string, so a value and its twin are equal keys for any table keyed by the object."""
    out = [("", ())]
    k = 0
    for t, a in spec:
        if not a and len(t) >= 2:
            cut = 1 + k % (len(t) - 1)
            out.append((t[:cut], ()))
            out.append((t[cut:], ()))
            k += 1
        else:
            out.append((t, a))
    return tuple(out)


def twin_pairs():
    """(spec, twin) pairs from 5 to 400 runs."""
    out = []
    for n in (12, 31, 64, 100, 131, 257, 700, 1400):
        sp = scale_spec(n, "plain_stretches")
        out.append((sp, render_twin(sp)))
    sp = tuple(("w%d" % i, ()) if i % 2 else (" ", ()) for i in range(90))
    out.append((sp, (("".join(t for t, _ in sp), ()),)))
    return out


SCALE_SHAPES = ("one", "runs7", "unit_runs", "words", "wide", "dense_marks", "astral")


def scale_specs(thorough=False, shapes=SCALE_SHAPES, per_size=2):
    """Sweep of sizes far beyond small: EVERY length 34..129, every 13th up to 1300, then 1500, 2049, 2501, 3333, 5001 (thorough: every
    length to 399, every 7th to 2700, 10007, 20011); `per_size` shapes per size, rotating, so that every shape meets every residue.
    Code that switches behaviour above a size chosen by its author (fast path, cache minimum, chunking) is reached by all larger sizes;
    code that does something every so-many characters meets the many different lengths and the point sweeps of the callers."""
    out = []
    sizes = SCALE_SIZES_THOROUGH if thorough else SCALE_SIZES
    for k, n in enumerate(sizes):
        for j in range(per_size):
            shape = shapes[(k + j * 2) % len(shapes)]
            if shape == "unit_runs" and n > 2700:
                shape = "runs7"
            out.append(scale_spec(n, shape))
    return out


def adjacent_colour_pairs(styles=()):
    """One character per run; every ORDERED pair of (fg, bg) combinations (none or one of 8 colours each: 81 combinations, 6 561 ordered
    pairs) occurs as a pair of adjacent runs.  Anything that merges or compares neighbouring runs by a packed / hashed form of their
    colours meets every possible collision."""
    combos = [(fg, bg) for fg in (None,) + tuple(range(30, 38)) for bg in (None,) + tuple(range(40, 48))]

    def atts(c):
        out = list(styles)
        if c[0] is not None:
            out.append(("fg", c[0]))
        if c[1] is not None:
            out.append(("bg", c[1]))
        return tuple(sorted(out))

    spec = []
    k = 0
    for a in combos:
        for b in combos:
            spec.append((LETTERS[k % 26], atts(a)))
            spec.append((LETTERS[(k + 1) % 26].upper(), atts(b)))
            k += 2
    return tuple(spec)


def few_points(spec, limit=24):
    pts = boundary_points(spec)
    if len(pts) <= limit:
        return pts
    step = len(pts) / float(limit)
    return sorted({pts[int(i * step)] for i in range(limit)} | {pts[0], pts[-1], 0, -1})
