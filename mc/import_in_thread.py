"""Run as a program (never imported by the checks): curtsies is imported for the first time on a NON-main thread of a new process, an Input
is entered and left there (and/or on the main thread afterwards); prints one JSON line with the terminal / descriptor / signal state
before and after.  argv: <repo path> <scenario>   scenarios: thread_only | thread_then_main | main_after_thread_import"""
import fcntl
import json
import os
import signal
import sys
import termios
import threading

repo, scenario = sys.argv[1], sys.argv[2]
sys.path.insert(0, repo)
os.environ.setdefault("TERM", "xterm")
master, slave = os.openpty()


class S:
    encoding = "utf-8"

    def fileno(self):
        return slave


def snap():
    return {
        "tty": termios.tcgetattr(slave)[:6] + [[c if isinstance(c, int) else c.hex() for c in termios.tcgetattr(slave)[6]]],
        "fl": fcntl.fcntl(slave, fcntl.F_GETFL),
        "fds": sorted(int(x) for x in os.listdir("/proc/self/fd") if x.isdigit()),
        "sigint": repr(signal.getsignal(signal.SIGINT)),
        "mask": sorted(int(x) for x in signal.pthread_sigmask(signal.SIG_BLOCK, [])),
    }


out = {"scenario": scenario, "errors": []}
box = {}


def use(sig, do_import_only=False):
    try:
        import curtsies  # noqa  (first import of the library in this process happens here when called first on the thread)

        box["file"] = curtsies.__file__
        if do_import_only:
            return
        with curtsies.Input(in_stream=S(), sigint_event=sig) as inp:
            inp.send(0)
    except BaseException as ex:  # noqa
        out["errors"].append("%s: %r" % (type(ex).__name__, ex))


def on_thread(*a):
    t = threading.Thread(target=use, args=a)
    t.start()
    t.join()


fds_before_import = snap()
if scenario == "thread_only":
    on_thread(False, True)  # import only, so that the modules' own descriptors (if any) exist before the first snapshot
    s0 = snap()
    for sig in (False, True):
        on_thread(sig)
elif scenario == "thread_then_main":
    on_thread(False, True)
    s0 = snap()
    on_thread(True)
    use(True)
    use(False)
else:
    on_thread(False, True)
    s0 = snap()
    use(True)
    use(False)
    on_thread(True)
s1 = snap()
out["before"], out["after"], out["file"] = s0, s1, box.get("file")
print(json.dumps(out))
