"""Runner: argument parsing, repo import, parallel shards, evidence, VIOLATION / KNOWN-FINDING lines.

Contract (see DESIGN.md section 2):
  exit 0  = the property held on everything explored (known findings are printed as KNOWN-FINDING lines)
  exit 1  = `VIOLATION property=<id> replay=<path>` printed for every failure signature that
            known_findings.json does not list with status "known"
Harness errors (an exception in the machinery itself, a determinism self-check that fails) are reported
as violations of kind "harness": an unexplained execution is not evidence that the property held.
"""
import argparse
import importlib
import json
import multiprocessing
import os
import re
import sys
import time
import traceback

VERIF = os.path.dirname(os.path.dirname(os.path.abspath(__file__)))
REPO = os.path.realpath(os.environ.get("VERIF_REPO", "/repo"))
MASK = (1 << 64) - 1


def setup_repo():
    """Put the repository's *working tree* first on sys.path and prove that is what got imported."""
    if REPO not in sys.path:
        sys.path.insert(0, REPO)
    import curtsies  # noqa

    f = os.path.realpath(curtsies.__file__)
    if not f.startswith(REPO + os.sep):
        raise RuntimeError("curtsies imported from %s, not from %s" % (f, REPO))
    return curtsies


# ---------------------------------------------------------------------------------------------
# accumulation of what a shard (or the whole run) covered; plain data only, so it can cross a fork


class Acc:
    """Per-shard accumulator. Everything exported is plain data (FmtStr cannot be pickled)."""

    MAX_CASES_PER_SIG = 8
    MAX_STATE_HASHES = 3_000_000

    def __init__(self, seed=0, sample_stride=9973, max_samples=3):
        self.n = 0
        self.nontrivial = 0
        self.transitions = 0
        self.validated = 0
        self.state_hashes = set()
        self.states_capped = False
        self.fail = {}
        self.samples = []
        self.digest = 0
        self.outcomes = {}
        self.extra = {}
        self._seed = seed
        self._stride = sample_stride
        self._max_samples = max_samples

    def case(self, nontrivial=True, key=None, sample=None, n=1):
        """Count one explored case. `key` (hashable, seed independent) feeds the order independent space
        digest; `sample` is a callable producing a JSON-able description (only called when kept)."""
        self.n += n
        if nontrivial:
            self.nontrivial += n
        if key is not None:
            self.digest = (self.digest + (hash(key) & MASK)) & MASK
        if sample is not None and len(self.samples) < self._max_samples:
            if (self.n + self._seed) % self._stride == 0 or not self.samples:
                try:
                    self.samples.append(sample() if callable(sample) else sample)
                except Exception as e:  # pragma: no cover
                    self.samples.append("<sample failed: %r>" % (e,))

    def state(self, h):
        if len(self.state_hashes) < self.MAX_STATE_HASHES:
            self.state_hashes.add(h if isinstance(h, int) else hash(h))
        else:
            self.states_capped = True

    def outcome(self, label, n=1):
        self.outcomes[label] = self.outcomes.get(label, 0) + n

    def failure(self, signature, case, message=""):
        ent = self.fail.get(signature)
        if ent is None:
            ent = self.fail[signature] = {"count": 0, "cases": []}
        ent["count"] += 1
        if len(ent["cases"]) < self.MAX_CASES_PER_SIG:
            ent["cases"].append({"case": case, "message": str(message)[:2000]})

    def add(self, key, n=1):
        self.extra[key] = self.extra.get(key, 0) + n

    def export(self):
        return {
            "n": self.n,
            "nontrivial": self.nontrivial,
            "transitions": self.transitions,
            "validated": self.validated,
            "state_hashes": self.state_hashes,
            "states_capped": self.states_capped,
            "fail": self.fail,
            "samples": self.samples,
            "digest": self.digest,
            "outcomes": self.outcomes,
            "extra": self.extra,
        }


class Report:
    def __init__(self):
        self.n = 0
        self.nontrivial = 0
        self.transitions = 0
        self.validated = 0
        self.state_hashes = set()
        self.states_capped = False
        self.states_override = None
        self.fail = {}
        self.samples = []
        self.digest = 0
        self.outcomes = {}
        self.extra = {}
        self.rule = ""
        self.exhaustive = True
        self.caps = []
        self.assumptions = []
        self.bounds = {}
        self.parts = {}

    def merge(self, d, part=None):
        if isinstance(d, Acc):
            d = d.export()
        self.n += d["n"]
        self.nontrivial += d["nontrivial"]
        self.transitions += d["transitions"]
        self.validated += d["validated"]
        if len(self.state_hashes) < 20_000_000:
            self.state_hashes |= d["state_hashes"]
        else:
            self.states_capped = True
        self.states_capped = self.states_capped or d["states_capped"]
        for sig, ent in d["fail"].items():
            mine = self.fail.setdefault(sig, {"count": 0, "cases": []})
            mine["count"] += ent["count"]
            room = Acc.MAX_CASES_PER_SIG - len(mine["cases"])
            if room > 0:
                mine["cases"].extend(ent["cases"][:room])
        for s in d["samples"]:
            if len(self.samples) < 12:
                self.samples.append(s)
        self.digest = (self.digest + d["digest"]) & MASK
        for k, v in d["outcomes"].items():
            self.outcomes[k] = self.outcomes.get(k, 0) + v
        for k, v in d["extra"].items():
            if isinstance(v, (int, float)):
                self.extra[k] = self.extra.get(k, 0) + v
            else:
                self.extra[k] = v
        if part is not None:
            p = self.parts.setdefault(part, {"evaluations": 0, "nontrivial": 0, "transitions": 0})
            p["evaluations"] += d["n"]
            p["nontrivial"] += d["nontrivial"]
            p["transitions"] += d["transitions"]


class Ctx:
    def __init__(self, prop, tier, seed, jobs):
        self.prop = prop
        self.tier = tier
        self.seed = seed
        self.jobs = jobs
        self.thorough = tier == "thorough"
        self._pool = None

    def pmap(self, fn, shards, chunksize=1):
        """Run fn(shard) for every shard in a fork pool (the parent has imported curtsies already).
        Results come back in shard order; every result must be plain data."""
        shards = list(shards)
        if self.jobs <= 1 or len(shards) <= 1:
            return [fn(s) for s in shards]
        if self._pool is None:
            mp = multiprocessing.get_context("fork")
            self._pool = mp.Pool(self.jobs)
        return self._pool.map(fn, shards, chunksize)

    def close(self):
        if self._pool is not None:
            self._pool.close()
            self._pool.join()
            self._pool = None

    def terminate(self):
        if self._pool is not None:
            try:
                self._pool.terminate()
            except Exception:  # pragma: no cover
                pass

    def kill_workers(self):
        """SIGKILL for every pool worker (a worker stuck in a blocking call or with signals blocked ignores terminate())."""
        import signal as _signal

        for p in list(getattr(self._pool, "_pool", None) or []):
            try:
                os.kill(p.pid, _signal.SIGKILL)
            except Exception:  # pragma: no cover
                pass


# ---------------------------------------------------------------------------------------------


def load_known(prop):
    path = os.path.join(VERIF, "known_findings.json")
    known = {}
    if os.path.exists(path):
        with open(path) as f:
            for ent in json.load(f).get("findings", []):
                if ent.get("property") == prop and ent.get("status") == "known":
                    known[ent["signature"]] = ent
    return known


def sanitize(sig):
    return re.sub(r"[^A-Za-z0-9_.-]+", "_", sig)[:120]


def write_replay(prop, sig, ent, tier, seed, kind="property"):
    d = os.path.join(os.environ.get("VERIF_REPLAY_DIR") or os.path.join(VERIF, "replays"), prop)
    os.makedirs(d, exist_ok=True)
    path = os.path.join(d, sanitize(sig) + ".json")
    with open(path, "w") as f:
        json.dump(
            {
                "property": prop,
                "kind": kind,
                "signature": sig,
                "count_in_run": ent["count"],
                "tier": tier,
                "seed": seed,
                "cases": ent["cases"],
                "how_to_replay": "./check %s --replay %s" % (prop, path),
            },
            f,
            indent=1,
            default=repr,
        )
    return path


def write_evidence(prop, mod, ctx, report, wall, violations, known_seen):
    states = report.states_override if report.states_override is not None else len(report.state_hashes)
    cov = {
        "evaluations": report.n,
        "distinct_nontrivial": report.nontrivial,
        "rule": report.rule,
        "samples": report.samples[:12] if report.samples else ["<no sample kept>"],
        "states": max(states, 0),
        "transitions": report.transitions if report.transitions else report.n,
        "traces_validated_against_impl": report.validated,
        "exhaustive": bool(report.exhaustive and not report.caps),
        "bounds": report.bounds,
        "caps_hit": report.caps,
        "states_count_capped": report.states_capped,
        "distinct_outcomes": len(report.outcomes),
        "outcomes": dict(sorted(report.outcomes.items(), key=lambda kv: -kv[1])[:40]),
        "space_digest": "%016x" % report.digest,
        "parts": report.parts,
        "failures_by_signature": {k: v["count"] for k, v in report.fail.items()},
        "known_findings_observed": sorted(known_seen),
        "jobs": ctx.jobs,
    }
    cov.update({k: v for k, v in report.extra.items() if k not in cov})
    ev = {
        "property_id": prop,
        "tier": ctx.tier,
        "seed": ctx.seed,
        "level": getattr(mod, "LEVEL", "model_checking"),
        "coverage": cov,
        "assumptions": report.assumptions,
        "wall_s": round(wall, 3),
        "violations": violations,
        "repo": REPO,
    }
    d = os.path.join(VERIF, "evidence")
    os.makedirs(d, exist_ok=True)
    tmp = os.path.join(d, prop + ".json.tmp")
    with open(tmp, "w") as f:
        json.dump(ev, f, indent=1, default=repr)
    os.replace(tmp, os.path.join(d, prop + ".json"))


def main(argv=None):
    ap = argparse.ArgumentParser()
    ap.add_argument("property")
    ap.add_argument("--tier", default=os.environ.get("VERIF_TIER") or "quick", choices=["quick", "thorough"])
    ap.add_argument("--replay")
    ap.add_argument("--jobs", type=int, default=int(os.environ.get("VERIF_JOBS", "0") or 0))
    args = ap.parse_args(argv)
    prop = args.property.upper()
    try:
        seed = int(os.environ.get("VERIF_SEED", "0") or 0)
    except ValueError:
        seed = 0
    jobs = args.jobs or min(16, os.cpu_count() or 1)
    ctx = Ctx(prop, args.tier, seed, jobs)
    t0 = time.time()

    # a ceiling on the address space of the runner and of every worker: a changed library that allocates without end ends in a
    # MemoryError (reported as a failed check) instead of taking the machine down
    try:
        import resource

        lim = int(float(os.environ.get("VERIF_MEM_GB", "24")) * (1 << 30))
        soft, hard = resource.getrlimit(resource.RLIMIT_AS)
        if hard == resource.RLIM_INFINITY or lim < hard:
            resource.setrlimit(resource.RLIMIT_AS, (lim, hard))
    except Exception:  # pragma: no cover
        pass

    # kill -USR1 <pid> prints the Python stack of a runner or worker process (inherited by the forked pool workers)
    try:
        import faulthandler
        import signal as _sig

        faulthandler.register(_sig.SIGUSR1, all_threads=True)
    except Exception:  # pragma: no cover
        pass

    # watchdog: a check that does not finish (a changed library can make an exploration blow up) is a failed check, not a hung one
    import threading

    limit = float(os.environ.get("VERIF_TIMEOUT", "0") or 0) or (1800.0 if args.tier == "quick" else 6 * 3600.0)

    def on_timeout():
        # nothing in here may keep the process alive: a closed stdout, a pool that does not terminate, workers that ignore signals
        try:
            path = write_replay(prop, "harness:timeout", {"count": 1, "cases": [{"case": None, "message": "no result after %.0f s" % limit}]}, args.tier, seed, "harness")
            sys.stderr.write("[%s] harness:timeout after %.0f s\n" % (prop, limit))
            print("VIOLATION property=%s replay=%s" % (prop, path))
            sys.stdout.flush()
        except BaseException:  # noqa
            pass
        try:
            ctx.kill_workers()
        except BaseException:  # noqa
            pass
        os._exit(1)

    watchdog = threading.Timer(limit, on_timeout)
    watchdog.daemon = True
    watchdog.start()
    mod = None
    report = Report()
    try:
        setup_repo()
        mod = importlib.import_module("mc.props." + prop.lower())
        if args.replay:
            return replay_main(mod, ctx, prop, args.replay)
        r = mod.run(ctx)
        if r is not None:
            report = r
    except Exception:
        tb = traceback.format_exc()
        report.fail.setdefault("harness:exception", {"count": 0, "cases": []})
        report.fail["harness:exception"]["count"] += 1
        report.fail["harness:exception"]["cases"].append({"case": None, "message": tb[-4000:]})
        sys.stderr.write(tb)
    finally:
        ctx.close()
        watchdog.cancel()
    wall = time.time() - t0

    known = load_known(prop)
    violations = 0
    known_seen = []
    lines = []
    for sig in sorted(report.fail):
        ent = report.fail[sig]
        if sig in known:
            known_seen.append(sig)
            lines.append(
                "KNOWN-FINDING: property=%s %s [signature=%s, %d failing case(s) in this run]"
                % (prop, known[sig].get("what", sig), sig, ent["count"])
            )
        else:
            kind = "harness" if sig.startswith("harness:") else "property"
            path = write_replay(prop, sig, ent, ctx.tier, seed, kind)
            violations += ent["count"]
            first = ent["cases"][0] if ent["cases"] else {}
            sys.stderr.write(
                "[%s] %s x%d e.g. %s :: %s\n"
                % (prop, sig, ent["count"], json.dumps(first.get("case"), default=repr)[:600], first.get("message", "")[:600])
            )
            lines.append("VIOLATION property=%s replay=%s" % (prop, path))
    for sig in known:
        if sig not in report.fail:
            sys.stderr.write("[%s] note: known finding %s was not observed in this run\n" % (prop, sig))
    if mod is not None and not os.environ.get("VERIF_NO_EVIDENCE"):
        try:
            write_evidence(prop, mod, ctx, report, wall, violations, known_seen)
        except Exception:
            sys.stderr.write(traceback.format_exc())
            lines.append("VIOLATION property=%s replay=%s" % (prop, "<evidence-writer-failed>"))
            violations += 1
    for line in lines:
        print(line)
    states = report.states_override if report.states_override is not None else len(report.state_hashes)
    print(
        "%s tier=%s evaluations=%d nontrivial=%d states=%d transitions=%d validated=%d outcomes=%d wall=%.1fs %s"
        % (
            prop,
            ctx.tier,
            report.n,
            report.nontrivial,
            states,
            report.transitions,
            report.validated,
            len(report.outcomes),
            wall,
            "OK" if violations == 0 else "FAILED",
        )
    )
    sys.stdout.flush()
    return 1 if violations else 0


def replay_main(mod, ctx, prop, path):
    with open(path) as f:
        data = json.load(f)
    if not hasattr(mod, "replay"):
        print("property %s has no replay support" % prop)
        return 2
    bad = 0
    for ent in data.get("cases", []):
        fails = mod.replay(ctx, ent["case"])
        for sig, msg in fails:
            bad += 1
            print("REPLAY-FAIL %s %s :: %s" % (prop, sig, str(msg)[:1000]))
        if not fails:
            print("REPLAY-PASS %s %s" % (prop, json.dumps(ent["case"], default=repr)[:300]))
    if bad:
        print("VIOLATION property=%s replay=%s" % (prop, path))
        return 1
    return 0


if __name__ == "__main__":
    sys.exit(main())
