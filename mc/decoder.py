"""Explicit-state exploration of the key decoder's own decision tree (DESIGN.md 4/C03, 4/C20).

A *state* is a byte string `seq` all of whose proper prefixes made get_key(..., full=False) return None - exactly the
strings the calling protocol (Input._send.find_key: pop one byte at a time, full = buffer empty) can present.
Transitions: next byte b in 0..255; at every state the real get_key is called for full in {False, True} and for the three
naming modes.  Reference data: the two tables taken from the code *as data* (T, P' = proper prefixes, rebuilt here
independently of KEYMAP_PREFIXES), an independent notion of 'character' / 'proper prefix of a character' per encoding,
and a few documented anchor names pinned here.

Failures are recorded with signatures prefixed C03: or C20: - the two property modules keep their own.
"""
import itertools

ENCODINGS = ("ascii", "latin-1", "utf-8")

ANCHORS_CURTSIES = {
    b"\x1b": "<ESC>", b" ": "<SPACE>", b"\x1b[A": "<UP>", b"\x1b[B": "<DOWN>", b"\x1b[C": "<RIGHT>", b"\x1b[D": "<LEFT>",
    b"\x1b[Z": "<Shift-TAB>", b"\t": "<TAB>", b"\x1ba": "<Esc+a>", b"\n": "<Ctrl-j>", b"\x01": "<Ctrl-a>", b"\x7f": "<BACKSPACE>",
    b"\x1bOP": "<F1>", b"\x1b[24~": "<F12>", b"\x1b[3~": "<DELETE>", b"\x04": "<Ctrl-d>", b"\x1b[H": "<HOME>",
}
ANCHORS_CURSES = {b"\x1b[A": "KEY_UP", b"\x1bOP": "KEY_F(1)", b"\x1b[20~": "KEY_F(9)"}

# the 17 UTF-8 byte classes (first and last byte of each are the boundary representatives)
UTF8_CLASSES = [(0x00, 0x7F), (0x80, 0x8F), (0x90, 0x9F), (0xA0, 0xBF), (0xC0, 0xC1), (0xC2, 0xDF), (0xE0, 0xE0), (0xE1, 0xEC),
                (0xED, 0xED), (0xEE, 0xEF), (0xF0, 0xF0), (0xF1, 0xF3), (0xF4, 0xF4), (0xF5, 0xF7), (0xF8, 0xFB), (0xFC, 0xFD), (0xFE, 0xFF)]
REPS_BOTH = sorted({b for lo, hi in UTF8_CLASSES for b in (lo, hi)})
REPS_FIRST = sorted({lo for lo, hi in UTF8_CLASSES})
REPS_FEW = [0x00, 0x41, 0x80, 0xBF, 0xC2, 0xE0, 0xF0, 0xFF]
ALPHABETS = {"full": list(range(256)), "reps": REPS_BOTH, "first": REPS_FIRST, "few": REPS_FEW}


class Ref:
    """Reference data, built once per process."""

    def __init__(self):
        from curtsies import events

        self.events = events
        self.CURTSIES = dict(events.CURTSIES_NAMES)
        self.CURSES = dict(events.CURSES_NAMES)
        self.T = set(self.CURTSIES) | set(self.CURSES)
        self.P = set()
        for k in self.T:
            for i in range(1, len(k)):
                self.P.add(k[:i])
        self.MAX = max(len(k) for k in self.T)
        self.modes = (events.Keynames.CURTSIES, events.Keynames.CURSES, events.Keynames.BYTES)
        # unit prefixes: every prefix (proper or not) of a table sequence that is not a single 8-bit Meta byte
        self.table_prefixes = set()
        for k in self.T:
            if len(k) == 1 and k[0] >= 0x80:
                continue
            for i in range(1, len(k) + 1):
                self.table_prefixes.add(k[:i])
        self.table_units = {k for k in self.T if not (len(k) == 1 and k[0] >= 0x80)}

    # ---- characters, independently of curtsies ------------------------------------------------------
    @staticmethod
    def is_char(enc, s):
        if enc == "ascii":
            return len(s) == 1 and s[0] < 0x80
        if enc == "latin-1":
            return len(s) == 1
        return utf8_char_len(s) == len(s) and len(s) > 0 and utf8_valid_prefix(s)

    @staticmethod
    def is_charprefix(enc, s):
        """s is a *proper* prefix of some scalar value's encoding."""
        if enc != "utf-8" or not s:
            return False
        n = utf8_char_len(s)
        return n is not None and len(s) < n and utf8_valid_prefix(s)


def utf8_char_len(s):
    b = s[0]
    if b < 0x80:
        return 1
    if 0xC2 <= b <= 0xDF:
        return 2
    if 0xE0 <= b <= 0xEF:
        return 3
    if 0xF0 <= b <= 0xF4:
        return 4
    return None


def utf8_valid_prefix(s):
    """s (non-empty, not longer than its lead byte announces) can be continued to / is a strictly valid UTF-8 encoding
    of one scalar value (no overlongs, no surrogates, <= U+10FFFF) - Unicode Table 3-7, typed in here."""
    n = utf8_char_len(s)
    if n is None or len(s) > n:
        return False
    b = s[0]
    for i, c in enumerate(s[1:], start=1):
        lo, hi = 0x80, 0xBF
        if i == 1:
            if b == 0xE0:
                lo = 0xA0
            elif b == 0xED:
                hi = 0x9F
            elif b == 0xF0:
                lo = 0x90
            elif b == 0xF4:
                hi = 0x8F
        if not (lo <= c <= hi):
            return False
    return True


def valid_stream_prefix(ref, enc, seq, full):
    """Is seq (the bytes since the last cut) a prefix of a concatenation of units?  unit = table sequence or validly
    encoded character; an 8-bit Meta byte counts only as a whole keypress (seq is that single byte) and under utf-8 only
    when it ends a read (full).  With full=True the stream ends here, so seq must be an exact concatenation of units."""
    n = len(seq)
    if n == 1 and seq[0] >= 0x80 and seq in ref.T:
        if enc != "utf-8" or full:
            return True
    reach = [False] * (n + 1)
    reach[0] = True
    for i in range(n):
        if not reach[i]:
            continue
        for j in range(i + 1, min(n, i + ref.MAX) + 1):
            piece = seq[i:j]
            if piece in ref.table_units or Ref.is_char(enc, piece):
                reach[j] = True
    if reach[n]:
        return True
    if full:
        return False
    for i in range(n):
        if reach[i]:
            rest = seq[i:]
            if rest in ref.table_prefixes or Ref.is_charprefix(enc, rest):
                return True
    return False


def evaluate(ref, acc, enc, seq):
    """Calls the real get_key 6 times on one state and applies the oracles. Returns True when the state must be expanded."""
    get_key = ref.events.get_key
    lst = [seq[i : i + 1] for i in range(len(seq))]
    res = {}
    for mi, mode in enumerate(ref.modes):
        for full in (False, True):
            try:
                r = get_key(lst, enc, keynames=mode, full=full)
                res[(mi, full)] = ("none", None) if r is None else ("key", r)
            except Exception as ex:  # noqa
                res[(mi, full)] = ("exc:" + type(ex).__name__, None)
    acc.transitions += 6
    case = {"encoding": enc, "seq": seq.hex()}
    inT = seq in ref.T
    inP = seq in ref.P
    ischar = Ref.is_char(enc, seq)
    ispref = Ref.is_charprefix(enc, seq)
    meta_utf8 = enc == "utf-8" and len(seq) == 1 and seq[0] >= 0x80
    for full in (False, True):
        kinds = [res[(mi, full)][0] for mi in range(3)]
        # ---- C20: the modes differ only in names ------------------------------------------------------
        if len(set(kinds)) != 1:
            acc.failure("C20:modes_cut_differently", dict(case, full=full), "curtsies/curses/bytes -> %r" % (kinds,))
        kb, rb = res[(2, full)]
        if kb == "key" and rb != seq:
            acc.failure("C20:bytes_mode_not_the_bytes", dict(case, full=full), "returned %r" % (rb,))
        k0, r0 = res[(0, full)]
        k1, r1 = res[(1, full)]
        # validity (a DP) is only needed when the decoder raised or asked for more input
        valid = valid_stream_prefix(ref, enc, seq, full) if k0 != "key" else None
        acc.outcome(k0 if valid is None else "%s/%s" % (k0, "valid" if valid else "outside"))
        # ---- C03 -----------------------------------------------------------------------------------------
        if inT:
            if full or not inP:
                if full or not meta_utf8:
                    want = ref.CURTSIES.get(seq)
                    if k0 != "key" or (want is not None and r0 != want):
                        acc.failure("C03:O1_table_sequence_not_reported_under_its_name", dict(case, full=full), "got %r %r, table says %r" % (k0, r0, want))
                    if seq in ref.CURSES and (k1 != "key" or r1 != ref.CURSES[seq]):
                        acc.failure("C03:O1_curses_name", dict(case, full=full), "got %r %r, table says %r" % (k1, r1, ref.CURSES[seq]))
                    if seq in ANCHORS_CURTSIES and r0 != ANCHORS_CURTSIES[seq]:
                        acc.failure("C03:O1_documented_name", dict(case, full=full), "got %r, documented %r" % (r0, ANCHORS_CURTSIES[seq]))
                    if seq in ANCHORS_CURSES and r1 != ANCHORS_CURSES[seq]:
                        acc.failure("C03:O1_documented_curses_name", dict(case, full=full), "got %r, documented %r" % (r1, ANCHORS_CURSES[seq]))
            else:
                if k0 != "none":
                    acc.failure("C03:O1_prefix_key_returned_while_more_buffered", dict(case, full=full), "got %r %r" % (k0, r0))
        elif ischar:
            text = seq.decode(enc)
            if k0 != "key" or r0 != text or (k1 == "key" and r1 != text):
                acc.failure("C03:O2_character_not_reported_as_itself", dict(case, full=full), "got %r %r / %r" % (k0, r0, r1))
        elif ispref and not full:
            if k0 != "none":
                acc.failure("C03:O3_character_broken_while_more_buffered", dict(case, full=full), "got %r %r" % (k0, r0))
        elif inP:
            if not full and k0 != "none":
                acc.failure("C03:O4_table_sequence_broken_up", dict(case, full=full), "got %r %r" % (k0, r0))
            if full and k0.startswith("exc"):
                acc.failure("C03:O4_prefix_raises_when_buffer_exhausted", dict(case, full=full), k0)
        if valid:
            if k0.startswith("exc"):
                sig = "C03:O6_raises_on_valid_stream:" + k0[4:]
                if (enc == "utf-8" and len(seq) >= 2 and seq[:-1] in ref.P and 0xC2 <= seq[-1] <= 0xF4 and k0 == "exc:UnicodeDecodeError"):
                    sig = "C03:O6_utf8_table_prefix_then_multibyte_lead_byte_raises_UnicodeDecodeError"
                acc.failure(sig, dict(case, full=full), "prefix of a valid stream, get_key raised")
            elif k0 == "none":
                if full:
                    acc.failure("C03:O5_none_although_read_ended_on_a_complete_unit", dict(case, full=full), "get_key(full=True) returned None")
                elif not (inP or any(Ref.is_charprefix(enc, seq[i:]) for i in range(len(seq)))):
                    acc.failure("C03:O5_asks_for_more_input_without_reason", dict(case, full=full), "returned None")
    expand = res[(0, False)][0] == "none"
    acc.case(inT or ischar or ispref or inP or valid_stream_prefix(ref, enc, seq, False), key=(enc, seq))
    if len(acc.samples) < 3 and (acc.n + acc._seed) % 4099 == 0:
        acc.samples.append({"encoding": enc, "seq": seq.hex(), "results": {("full" if f else "more") + "/" + str(m): res[(m, f)][0] for m in range(3) for f in (False, True)}})
    return expand


def explore(ref, acc, enc, root, alphabet_at):
    """DFS from `root` (bytes); alphabet_at(depth) -> iterable of next byte values."""
    stack = [root]
    names = set()
    while stack:
        seq = stack.pop()
        expand = evaluate(ref, acc, enc, seq)
        acc.state(hash((enc, seq))) if len(seq) <= 3 else None
        acc.add("nodes")
        if expand:
            if len(seq) >= ref.MAX + 1:
                acc.failure("C03:tree_deeper_than_max_keypress", {"encoding": enc, "seq": seq.hex()}, "")
                continue
            for b in alphabet_at(len(seq)):
                stack.append(seq + bytes([b]))
    return names


def collect_names(ref):
    """R = every name the decoder produces in curtsies mode along the complete ascii/latin-1 trees (both values of full)."""
    names = set()
    get_key = ref.events.get_key
    for enc in ("latin-1", "utf-8"):
        stack = [bytes([b]) for b in range(256)]
        while stack:
            seq = stack.pop()
            lst = [seq[i : i + 1] for i in range(len(seq))]
            r = None
            for full in (False, True):
                try:
                    k = get_key(lst, enc, full=full)
                    if k is not None:
                        names.add(k)
                    elif not full:
                        r = "expand"
                except Exception:  # noqa
                    pass
            if r == "expand" and len(seq) < ref.MAX and seq[0] < 0x80:
                stack.extend(seq + bytes([b]) for b in range(256))
    return names
