"""Run as a program: python -m mc.std_fds_main <k0> <keep:0|1> <result file>.  An ordinary interpreter (live sys.__stdin__/__stdout__ on
descriptors 0 and 1) in which mc.props.c07.std_fds_session puts a pty on those descriptors; the exported Acc is pickled to the file."""
import pickle
import sys

from mc import runner

runner.setup_repo()
from mc.props import c07  # noqa: E402

k0, keep, path = int(sys.argv[1]), bool(int(sys.argv[2])), sys.argv[3]
res = c07.std_fds_session(k0, keep)
with open(path, "wb") as f:
    pickle.dump(res, f)
