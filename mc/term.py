"""Reference terminal (DESIGN.md 3.3): xterm semantics, written from ctlseqs; a model of the *environment*.

Grid of cells (char, atts) with atts in mc.cells.norm_atts form, cursor (row, col, pending_wrap), autowrap with the pending-wrap
(last column) flag, LF scrolling into a scrollback list (main buffer only), CR, BS, HT, CUP/CHA/CUU/CUD/CUF/CUB with clamping,
EL 0/1/2 and ED 0/1/2 with background-colour-erase, SGR (mc.sgr.State), DECSC/DECRC (position, SGR, wrap flag), DECTCEM ?25,
?12 (recorded), ?1049 alternate screen, xterm window ops 22;0;0t / 23;0;0t (recorded), DSR 6n (answers through a callback).
Anything else raises TermError: a library that starts emitting an unknown sequence must not pass by being ignored.
"""
import unicodedata

from mc import sgr

BLANK = (" ", ())


def char_width(ch):
    """Columns a character occupies: 0 for combining marks and format characters (ZWJ, RLM ...), 2 for East Asian wide / fullwidth."""
    if unicodedata.combining(ch) or unicodedata.category(ch) in ("Mn", "Me", "Cf"):
        return 0
    if unicodedata.east_asian_width(ch) in ("W", "F"):
        return 2
    return 1


def expand_cells(cells_):
    """A row of (char, atts) cells -> one entry per terminal column: a double-width character owns two columns (the second holds ""),
    a zero-width character is attached to the cell before it."""
    out = []
    for ch, att in cells_:
        wdt = char_width(ch)
        if wdt == 0:
            if out:
                k = len(out) - 1
                if out[k][0] == "" and k > 0:
                    k -= 1
                out[k] = (out[k][0] + ch, out[k][1])
        elif wdt == 2:
            out.append((ch, att))
            out.append(("", att))
        else:
            out.append((ch, att))
    return out


class TermError(Exception):
    pass


class Term:
    def __init__(self, h, w, answer=None):
        self.h, self.w = h, w
        self.main = [[BLANK] * w for _ in range(h)]
        self.alt = None
        self.in_alt = False
        self.r = 0
        self.c = 0
        self.wrap = False
        self.st = sgr.State()
        self.saved = None  # DECSC
        self.saved_1049 = None
        self.visible = True
        self.scrollback = []
        self.answer = answer  # callable(str) for DSR replies
        self.window_ops = []
        self.scrolls = 0
        self.bells = 0

    # ---- helpers ------------------------------------------------------------------------------------
    @property
    def grid(self):
        return self.alt if self.in_alt else self.main

    def copy(self):
        t = Term.__new__(Term)
        t.h, t.w = self.h, self.w
        t.main = [list(r) for r in self.main]
        t.alt = [list(r) for r in self.alt] if self.alt is not None else None
        t.in_alt = self.in_alt
        t.r, t.c, t.wrap = self.r, self.c, self.wrap
        t.st = sgr.State()
        t.st.fg, t.st.bg, t.st.styles = self.st.fg, self.st.bg, set(self.st.styles)
        t.saved = self.saved
        t.saved_1049 = self.saved_1049
        t.visible = self.visible
        t.scrollback = list(self.scrollback)
        t.answer = self.answer
        t.window_ops = list(self.window_ops)
        t.scrolls = self.scrolls
        t.bells = self.bells
        return t

    def canon(self):
        return (
            self.h, self.w, tuple(tuple(r) for r in self.main), None if self.alt is None else tuple(tuple(r) for r in self.alt), self.in_alt,
            self.r, self.c, self.wrap, self.st.atts(), self.saved, self.saved_1049, self.visible, tuple(tuple(r) for r in self.scrollback),
        )

    def erase_cell(self):
        return (" ", (("bg", self.st.bg),)) if self.st.bg is not None else BLANK

    def _scroll_up(self):
        g = self.grid
        top = g.pop(0)
        if not self.in_alt:
            self.scrollback.append(top)
        g.append([self.erase_cell()] * self.w)
        self.scrolls += 1

    def _linefeed(self):
        if self.r == self.h - 1:
            self._scroll_up()
        else:
            self.r += 1
        self.wrap = False

    def _damage(self, x):
        """Column x is about to be overwritten / erased: the other half of a double-width character there becomes a blank."""
        row = self.grid[self.r]
        if not (0 <= x < self.w):
            return
        if row[x][0] == "" and x > 0:
            row[x - 1] = (" ", row[x - 1][1])
        if x + 1 < self.w and row[x + 1][0] == "" and row[x][0] != "":
            row[x + 1] = (" ", row[x + 1][1])

    def _put(self, ch):
        wdt = char_width(ch)
        if wdt == 0:
            # a zero-width character joins the cell before the cursor (the last written cell when a wrap is pending)
            x = self.c if self.wrap else self.c - 1
            row = self.grid[self.r]
            if x >= 0:
                if row[x][0] == "" and x > 0:
                    x -= 1
                row[x] = (row[x][0] + ch, row[x][1])
            return
        if self.wrap:
            self.c = 0
            self._linefeed()
        elif wdt == 2 and self.c == self.w - 1 and self.w >= 2:
            # a double-width character does not fit in the last column: it wraps as a whole
            self.c = 0
            self._linefeed()
        if wdt == 2 and self.w >= 2:
            self._damage(self.c)
            self._damage(self.c + 1)
            self.grid[self.r][self.c] = (ch, self.st.atts())
            self.grid[self.r][self.c + 1] = ("", self.st.atts())
            if self.c + 2 >= self.w:
                self.c = self.w - 1
                self.wrap = True
            else:
                self.c += 2
            return
        self._damage(self.c)
        self.grid[self.r][self.c] = (ch, self.st.atts())
        if self.c == self.w - 1:
            self.wrap = True
        else:
            self.c += 1

    def _cup(self, row, col):
        self.r = min(max(row, 0), self.h - 1)
        self.c = min(max(col, 0), self.w - 1)
        self.wrap = False

    # ---- input --------------------------------------------------------------------------------------
    def feed(self, s):
        i, n = 0, len(s)
        while i < n:
            ch = s[i]
            if ch == "\x1b":
                i = self._escape(s, i)
                continue
            i += 1
            if ch == "\n":
                self._linefeed()
            elif ch == "\r":
                self.c = 0
                self.wrap = False
            elif ch == "\b":
                self.c = max(0, self.c - 1)
                self.wrap = False
            elif ch == "\t":
                self.c = min(self.w - 1, (self.c // 8 + 1) * 8)
            elif ch == "\x07":
                self.bells += 1
            elif ch < " " or ch == "\x7f" or "\x80" <= ch <= "\x9f":
                raise TermError("control character %r not modelled" % ch)
            else:
                self._put(ch)

    def _escape(self, s, i):
        n = len(s)
        if i + 1 >= n:
            raise TermError("truncated escape")
        nx = s[i + 1]
        if nx == "7":
            self.saved = (self.r, self.c, self.wrap, self.st.fg, self.st.bg, frozenset(self.st.styles))
            return i + 2
        if nx == "8":
            if self.saved is not None:
                self.r, self.c, self.wrap, fg, bg, styles = self.saved
                self.r = min(self.r, self.h - 1)
                self.c = min(self.c, self.w - 1)
                self.st.fg, self.st.bg, self.st.styles = fg, bg, set(styles)
            else:
                self._cup(0, 0)
            return i + 2
        if nx != "[":
            raise TermError("escape %r not modelled" % s[i : i + 2])
        j = i + 2
        k = j
        while k < n and "\x30" <= s[k] <= "\x3f":
            k += 1
        m = k
        while m < n and "\x20" <= s[m] <= "\x2f":
            m += 1
        if m >= n:
            raise TermError("truncated control sequence %r" % s[i:])
        params_txt, inter, final = s[j:k], s[k:m], s[m]
        if inter:
            raise TermError("control sequence %r not modelled" % s[i : m + 1])
        self._csi(params_txt, final, s[i : m + 1])
        return m + 1

    def _csi(self, ptxt, final, raw):
        private = ptxt.startswith("?")
        if private:
            ptxt = ptxt[1:]
        try:
            params = [int(p) if p else 0 for p in ptxt.split(";")] if ptxt else []
        except ValueError:
            raise TermError("control sequence %r not modelled" % raw)
        if private:
            if final not in "hl" or len(params) != 1:
                raise TermError("private sequence %r not modelled" % raw)
            on = final == "h"
            p = params[0]
            if p == 25:
                self.visible = on
            elif p == 12:
                pass
            elif p == 1049:
                if on and not self.in_alt:
                    self.saved_1049 = (self.r, self.c, self.wrap, self.st.fg, self.st.bg, frozenset(self.st.styles))
                    self.in_alt = True
                    self.alt = [[BLANK] * self.w for _ in range(self.h)]
                elif not on and self.in_alt:
                    self.in_alt = False
                    self.alt = None
                    if self.saved_1049 is not None:
                        self.r, self.c, self.wrap, fg, bg, styles = self.saved_1049
                        self.r = min(self.r, self.h - 1)
                        self.c = min(self.c, self.w - 1)
                        self.st.fg, self.st.bg, self.st.styles = fg, bg, set(styles)
            else:
                raise TermError("private mode %r not modelled" % raw)
            return
        p1 = params[0] if params else 0
        if final == "m":
            unknown = []
            self.st.apply(params, unknown)
            if unknown:
                raise TermError("SGR %r not modelled" % raw)
        elif final == "H" or final == "f":
            row = (params[0] if len(params) > 0 and params[0] else 1) - 1
            col = (params[1] if len(params) > 1 and params[1] else 1) - 1
            self._cup(row, col)
        elif final == "G":
            self._cup(self.r, (p1 or 1) - 1)
        elif final == "d":
            self._cup((p1 or 1) - 1, self.c)
        elif final == "A":
            self._cup(self.r - (p1 or 1), self.c)
        elif final == "B":
            self._cup(self.r + (p1 or 1), self.c)
        elif final == "C":
            self._cup(self.r, self.c + (p1 or 1))
        elif final == "D":
            self._cup(self.r, self.c - (p1 or 1))
        elif final == "K":
            e = self.erase_cell()
            row = self.grid[self.r]
            if p1 == 0:
                self._damage(self.c)
                for x in range(self.c, self.w):
                    row[x] = e
            elif p1 == 1:
                self._damage(self.c)
                for x in range(0, self.c + 1):
                    row[x] = e
            elif p1 == 2:
                for x in range(self.w):
                    row[x] = e
            else:
                raise TermError("EL %r" % raw)
        elif final == "J":
            e = self.erase_cell()
            g = self.grid
            if p1 == 0:
                self._damage(self.c)
                for x in range(self.c, self.w):
                    g[self.r][x] = e
                for y in range(self.r + 1, self.h):
                    g[y] = [e] * self.w
            elif p1 == 1:
                for y in range(0, self.r):
                    g[y] = [e] * self.w
                for x in range(0, self.c + 1):
                    g[self.r][x] = e
            elif p1 == 2:
                for y in range(self.h):
                    g[y] = [e] * self.w
            else:
                raise TermError("ED %r" % raw)
        elif final == "n":
            if p1 == 6:
                if self.answer is None:
                    raise TermError("cursor position requested but nobody listens")
                self.answer("\x1b[%d;%dR" % (self.r + 1, self.c + 1))
            else:
                raise TermError("DSR %r not modelled" % raw)
        elif final == "t":
            self.window_ops.append(tuple(params))
        else:
            raise TermError("control sequence %r not modelled" % raw)

    # ---- environment actions ------------------------------------------------------------------------
    def resize(self, h, w, junk="keep", junk_cell=("#", (("bg", 45), ("fg", 33)))):
        """Re-dimension the active buffer. junk='fill': every cell a formatted '#', cursor parked bottom-right in pending wrap;
        junk='keep': old content kept (truncated / padded with blanks), cursor clamped."""
        def redim(g):
            if junk == "fill":
                return [[junk_cell] * w for _ in range(h)]
            out = []
            for y in range(h):
                row = list(g[y][:w]) if y < len(g) else []
                out.append(row + [BLANK] * (w - len(row)))
            return out

        self.main = redim(self.main) if not self.in_alt or junk == "keep" else [list(r[:w]) + [BLANK] * max(0, w - len(r)) for r in (self.main + [[BLANK] * w] * h)[:h]]
        if self.alt is not None:
            self.alt = redim(self.alt)
        self.h, self.w = h, w
        if junk == "fill":
            self.r, self.c, self.wrap = h - 1, w - 1, True
        else:
            self.r, self.c = min(self.r, h - 1), min(self.c, w - 1)
            self.wrap = False

    def text_rows(self, grid=None):
        g = self.grid if grid is None else grid
        return ["".join(c for c, _ in row) for row in g]
