"""Independent SGR interpreter (DESIGN.md 3.2), written from ECMA-48 / xterm ctlseqs.

Shares no code and no tables with curtsies (the code numbers are typed in again on purpose).
interpret(s) walks a string as a terminal's parser would and returns
    cells      : [(char, atts)] with atts in mc.cells.norm_atts form, for every character that is *printed*
                 (anything that is not part of an escape/control sequence, control characters such as \n, \t included)
    final      : the graphic state after the last character, same form
    non_sgr    : every ESC / CSI / C1 sequence that is not a well-formed SGR sequence, as text
    unknown    : SGR parameter numbers this interpreter does not implement
"""

ESC = "\x1b"
CSI8 = "\x9b"

_STYLE_ON = {1: "bold", 2: "dark", 3: "italic", 4: "underline", 5: "blink", 7: "invert"}
_STYLE_OFF = {22: ("bold", "dark"), 23: ("italic",), 24: ("underline",), 25: ("blink",), 27: ("invert",)}


class State:
    __slots__ = ("fg", "bg", "styles")

    def __init__(self):
        self.fg = None
        self.bg = None
        self.styles = set()

    def atts(self):
        out = [(s, True) for s in self.styles]
        if self.fg is not None:
            out.append(("fg", self.fg))
        if self.bg is not None:
            out.append(("bg", self.bg))
        return tuple(sorted(out))

    def apply(self, params, unknown):
        if not params:
            params = [0]
        i = 0
        while i < len(params):
            p = params[i]
            i += 1
            if p == 0:
                self.fg = None
                self.bg = None
                self.styles = set()
            elif p in _STYLE_ON:
                self.styles.add(_STYLE_ON[p])
            elif p in _STYLE_OFF:
                for s in _STYLE_OFF[p]:
                    self.styles.discard(s)
            elif 30 <= p <= 37:
                self.fg = p
            elif p == 39:
                self.fg = None
            elif 40 <= p <= 47:
                self.bg = p
            elif p == 49:
                self.bg = None
            elif p in (38, 48):
                # extended colour: 38;5;n or 38;2;r;g;b
                if i < len(params) and params[i] == 5:
                    val = ("256", tuple(params[i + 1 : i + 2]))
                    i += 2
                elif i < len(params) and params[i] == 2:
                    val = ("rgb", tuple(params[i + 1 : i + 4]))
                    i += 4
                else:
                    val = ("ext", ())
                if p == 38:
                    self.fg = val
                else:
                    self.bg = val
            elif 90 <= p <= 97:
                self.fg = p
            elif 100 <= p <= 107:
                self.bg = p
            else:
                unknown.append(p)


def scan(s):
    """Tokenise: yields ('text', ch) | ('sgr', params, raw) | ('seq', raw)."""
    i = 0
    n = len(s)
    while i < n:
        c = s[i]
        if c == ESC or c == CSI8:
            if c == ESC:
                if i + 1 >= n:
                    yield ("seq", c)
                    i += 1
                    continue
                if s[i + 1] != "[":
                    # two-character escape (ESC Fe / Fp / Fs) - not SGR
                    yield ("seq", s[i : i + 2])
                    i += 2
                    continue
                j = i + 2
            else:
                j = i + 1
            k = j
            while k < n and "\x30" <= s[k] <= "\x3f":
                k += 1
            params_txt = s[j:k]
            m = k
            while m < n and "\x20" <= s[m] <= "\x2f":
                m += 1
            inter = s[k:m]
            if m < n and "\x40" <= s[m] <= "\x7e":
                raw = s[i : m + 1]
                final = s[m]
                if final == "m" and not inter and all(ch in "0123456789;" for ch in params_txt):
                    params = [int(p) if p else 0 for p in params_txt.split(";")] if params_txt else []
                    yield ("sgr", params, raw)
                else:
                    yield ("seq", raw)
                i = m + 1
            else:
                # truncated control sequence
                yield ("seq", s[i:m])
                i = m
        elif "\x80" <= c <= "\x9f":
            yield ("seq", c)
            i += 1
        else:
            yield ("text", c)
            i += 1


def interpret(s):
    st = State()
    cells = []
    non_sgr = []
    unknown = []
    for tok in scan(s):
        if tok[0] == "text":
            cells.append((tok[1], st.atts()))
        elif tok[0] == "sgr":
            st.apply(tok[1], unknown)
        else:
            non_sgr.append(tok[1])
    return cells, st.atts(), non_sgr, unknown


# ---- pyte as a second opinion (the emulator the repository's own skipped tests use) ---------------

_PYTE_FG = {"black": 30, "red": 31, "green": 32, "brown": 33, "blue": 34, "magenta": 35, "cyan": 36, "white": 37}


def pyte_cells(s, columns=200):
    """Per-cell attributes pyte displays for a single-line string of single-width printable characters.
    pyte has no faint ('dark') attribute, so callers compare everything except 'dark'."""
    import pyte

    screen = pyte.Screen(columns, 2)
    stream = pyte.Stream(screen)
    stream.feed(s)
    out = []
    row = screen.buffer[0]
    for x in range(screen.cursor.x if screen.cursor.y == 0 else columns):
        ch = row[x]
        a = []
        if ch.fg != "default":
            a.append(("fg", _PYTE_FG.get(ch.fg, ch.fg)))
        if ch.bg != "default":
            a.append(("bg", _PYTE_FG.get(ch.bg, ch.bg) + 10 if ch.bg in _PYTE_FG else ch.bg))
        for name, flag in (("bold", ch.bold), ("italic", ch.italics), ("underline", ch.underscore), ("blink", ch.blink), ("invert", ch.reverse)):
            if flag:
                a.append((name, True))
        out.append((ch.data, tuple(sorted(a))))
    cur = screen.cursor.attrs
    return out, cur
