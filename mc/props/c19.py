"""C19 - equality, hashing and repr of FmtStr are coherent with what it displays (DESIGN.md 4/C19).

Space  : all ordered pairs over U = U_layout(3,2,P3) (820 values: same text/different formatting, empty runs, zero-run value)
         + U_layout(2,2,P_false) (bold=False variants, same display / different run boundaries) ; every value against a pool of plain
         str (the universe's texts and the universe's own terminal strings); repr for every value with >= 1 run plus quote /
         backslash / newline texts.
Oracle : (f == g) == (str(f) == str(g)); (f != g) is its negation; symmetric; (f == s) == (s == f) == (str(f) == s);
         equal => equal hashes (FmtStr/FmtStr and FmtStr/str); dict/set lookup agrees with ==;
         eval(repr(f), vars(curtsies.fmtfuncs)) has the same cells as f.
"""
from mc import cells as C
from mc import repeat
from mc.runner import Acc, Report

LEVEL = "model_checking"
NSHARDS = 64

P_FALSE = ((), (("bold", False),), (("bold", False), ("fg", 31)), (("fg", 31),))
REPR_TEXTS = ("it's", 'say "hi"', "back\\slash", "new\nline", "tab\t", "é", "Ｅ", "'\"", "",
              # beyond the BMP: zero-width (musical combining, variation selector supplement, Grantha sign), wide (emoji, CJK ext B), ordinary
              "a\U0001d167b", "x\U000e0100", "\U00011301", "\U0001f600!", "\U00020000", "\U00010400q", "e\u0301\u200d", "\x7f\x9b\xa0\xad", "\ud800")


def universe(tier):
    specs = list(C.layouts(3, 2)) + list(C.layouts(2, 2, P_FALSE, min_runs=1)) + C.exotic_specs()
    if tier == "thorough":
        specs += list(C.layouts(4, 1, C.P3, min_runs=4)) + list(C.layouts(3, 2, P_FALSE, min_runs=3))
    return specs


def fresh_str(v):
    """The terminal string of v recomputed from fresh run objects (no memo of v or of its runs is consulted)."""
    from curtsies.formatstring import Chunk

    return "".join(Chunk(str(c.s), dict(c.atts)).color_str for c in v.chunks)


DERIVE = (
    ("bold(v)", lambda v: v.copy_with_new_atts(bold=True)),
    ("fg=green(v)", lambda v: v.copy_with_new_atts(fg=32)),
    ("v without fg", lambda v: v.new_with_atts_removed("fg")),
    ("v*2", lambda v: v * 2),
    ("v.copy()", lambda v: v.copy()),
    ("v[0:1]", lambda v: v[0:1]),
)


def build_values(tier):
    """Universe values plus values derived from *already rendered and hashed* operands (descriptions are JSON-able)."""
    specs = universe(tier)
    descs = [C.show_spec(s) for s in specs]
    vals = [C.build(s) for s in specs]
    step = 5 if tier == "thorough" else 9
    for s in specs[::step]:
        for label, fn in DERIVE:
            base = C.build(s)
            str(base), hash(base), len(base), base.s
            try:
                vals.append(fn(base))
                descs.append({"derived": label, "from (rendered first)": C.show_spec(s)})
            except Exception:  # noqa
                pass
    # twins whose single run holds another value's terminal string as *unparsed* text (what `x + str(v)` produces):
    # same terminal string as v, different length and structure
    from curtsies.formatstring import fmtstr

    for sp in specs[:: (7 if tier == "thorough" else 13)]:
        v = C.build(sp)
        if len(sp) == 0:
            continue
        vals.append(fmtstr("") + str(v))
        descs.append({"raw terminal string of": C.show_spec(sp), "attached with": "fmtstr('') + str(v)"})
        vals.append(v[:1] + str(v[1:]))
        descs.append({"raw terminal string of the tail of": C.show_spec(sp), "attached with": "v[:1] + str(v[1:])"})
    return descs, vals


def shard_pairs(args):
    tier, seed, idx = args
    acc = Acc(seed=seed)
    specs, vals = build_values(tier)
    show = lambda d: d  # descriptions are already plain data
    strs = [fresh_str(v) for v in vals]
    for i, v in enumerate(vals):
        if idx == 0 and str(v) != strs[i]:
            acc.failure("C19:terminal_string_memo_differs_from_fresh_rendering", {"f": specs[i]}, "str(f)=%r, fresh rendering %r" % (str(v), strs[i]))
    hashes = [hash(v) for v in vals]
    table = {}
    for i, v in enumerate(vals):
        table.setdefault(v, i)
    by_str = {}
    for i, s in enumerate(strs):
        by_str.setdefault(s, i)
    pool = sorted(set([v.s for v in vals] + strs[::7]))
    for i in range(idx, len(vals), NSHARDS):
        f, sf = vals[i], strs[i]
        for j in range(len(vals)):
            g = vals[j]
            want = sf == strs[j]
            nontriv = (f.s == g.s and i != j) or want
            acc.case(nontriv, key=("p", i, j), sample=lambda: {"f": specs[i], "g": specs[j]})
            acc.transitions += 1
            case = {"f": specs[i], "g": specs[j]}
            try:
                eq, ne, eq2 = (f == g), (f != g), (g == f)
            except Exception as ex:  # noqa
                acc.failure("C19:eq_raises:" + type(ex).__name__, case, repr(ex))
                continue
            if eq is not want or ne is want or eq2 is not want:
                acc.failure("C19:eq_vs_terminal_string", case, "==:%r !=:%r reversed==:%r, terminal strings equal: %r" % (eq, ne, eq2, want))
            if want and hashes[i] != hashes[j]:
                acc.failure("C19:equal_but_hash_differs", case, "")
            acc.outcome("equal" if want else "unequal")
        # the same pairs again after the length, the text and a slice of both operands were looked at (equal pairs and same-text pairs)
        for j in range(len(vals)):
            g = vals[j]
            want = sf == strs[j]
            if not (want or f.s == g.s):
                continue
            for obj in (f, g):
                try:
                    len(obj), obj.s, obj[0:1], obj.width
                except Exception:  # noqa
                    pass
            try:
                eq, ne, eq2 = (f == g), (f != g), (g == f)
            except Exception as ex:  # noqa
                acc.failure("C19:eq_raises:" + type(ex).__name__, {"f": specs[i], "g": specs[j]}, repr(ex))
                continue
            acc.transitions += 1
            if eq is not want or ne is want or eq2 is not want:
                acc.failure("C19:eq_vs_terminal_string", {"f": specs[i], "g": specs[j], "after": "len(), .s, a slice and .width of both"}, "==:%r !=:%r reversed==:%r, terminal strings equal: %r" % (eq, ne, eq2, want))
        # dictionary / set behaviour
        k = table.get(f)
        if k is None or strs[k] != sf or k != by_str[sf]:
            acc.failure("C19:dict_lookup", {"f": specs[i]}, "lookup gave %r, expected index %r" % (k, by_str[sf]))
        if (sf in table) is not True and sf in by_str:
            acc.failure("C19:dict_lookup_by_str", {"f": specs[i]}, "plain terminal string not found as key")
        for s in pool:
            want = sf == s
            case = {"f": specs[i], "s": s}
            acc.case(want or f.s == s, key=("s", i, s), sample=case)
            acc.transitions += 1
            a, b, c, d = (f == s), (s == f), (f != s), (s != f)
            if a is not want or b is not want or c is want or d is want:
                acc.failure("C19:eq_str_vs_terminal_string", case, "f==s:%r s==f:%r f!=s:%r s!=f:%r want %r" % (a, b, c, d, want))
            if want and hash(s) != hashes[i]:
                acc.failure("C19:equal_str_but_hash_differs", case, "")
    return acc.export()


def repr_check(acc, f, case, ns):
    fc = C.cells(f)
    try:
        r = repr(f)
        g = eval(r, dict(ns))
        gc = C.cells(g) if not isinstance(g, str) else [(c, ()) for c in g]
    except Exception as ex:  # noqa
        acc.failure("C19:repr_eval_raises:" + type(ex).__name__, case, "%r" % (ex,))
        return
    acc.state(hash(r))
    if gc != fc:
        acc.failure("C19:repr_roundtrip", case, "repr %r evaluates to %r, value is %r" % (r, gc, fc))


def shard_repr(args):
    tier, seed, idx = args
    import curtsies.fmtfuncs

    ns = vars(curtsies.fmtfuncs)
    acc = Acc(seed=seed)
    specs = [s for s in universe(tier) if len(s) >= 1]
    for i in range(idx, len(specs), 16):
        case = {"f": specs[i], "op": "repr"}
        acc.case(True, key=("r", specs[i]), sample=case)
        acc.transitions += 1
        repr_check(acc, C.build(specs[i]), case, ns)
    return acc.export()


INT_STYLE_SPECS = [
    (("x", (("bold", 30),)),), (("x", (("underline", 44),)),), (("ab", (("fg", 32), ("invert", 31))),), (("ab", (("bg", 41), ("bold", 41), ("fg", 30))), ("c", (("dark", 2),))),
    (("x", (("bold", 1),)),), (("x", (("italic", 3.0),)),), (("x", (("blink", 37), ("underline", 4))),),
]


def shard_repr_texts(args):
    tier, seed, idx = args
    if idx == 0:
        import curtsies.fmtfuncs as _ff

        acc0 = Acc(seed=seed)
        for spec in INT_STYLE_SPECS:
            case = {"f": C.show_spec(spec), "op": "repr", "note": "styles switched on by numbers that are also colour codes"}
            acc0.case(True, key=("rint", spec), sample=case)
            repr_check(acc0, C.build(spec), case, vars(_ff))
        extra = acc0.export()
    else:
        extra = None
    import curtsies.fmtfuncs
    from mc.props import c01

    ns = vars(curtsies.fmtfuncs)
    acc = Acc(seed=seed)
    for ti, t in enumerate(REPR_TEXTS):
        for pi, kw in enumerate(c01.PAL24):
            if (ti * 24 + pi) % 16 != idx:
                continue
            for second in (None, "z"):
                spec = [(t, tuple(sorted(c01.expected_atts(kw)))) ]
                if second:
                    spec.append((second, (("bg", 42),)))
                case = {"f": C.show_spec(spec), "op": "repr"}
                acc.case(True, key=("rt", t, pi, second), sample=case)
                acc.transitions += 1
                repr_check(acc, C.build(spec), case, ns)
    if extra is not None:
        for sig, ent in extra["fail"].items():
            for c_ in ent["cases"]:
                acc.failure(sig, c_["case"], c_["message"])
        acc.n += extra["n"]
    return acc.export()


def shard_scale(args):
    """Sizes far beyond small: each value against an equal twin built separately, a twin differing in its last character, a twin
    differing in one run's formatting, its own terminal string and text; hash, dict lookup; repr round trip."""
    tier, seed, idx, nshards = args
    import curtsies.fmtfuncs

    ns = vars(curtsies.fmtfuncs)
    acc = Acc(seed=seed, sample_stride=4999)
    specs = C.scale_specs(tier == "thorough")
    for si in range(idx, len(specs), nshards):
        spec = specs[si]
        shown = {"scale_value": {"characters": sum(len(t) for t, _ in spec), "runs": len(spec), "first_runs": C.show_spec(spec[:3])}}
        f = C.build(spec)
        twin = C.build(spec)
        last = next(k for k in range(len(spec) - 1, -1, -1) if spec[k][0])
        other_text = spec[:last] + ((spec[last][0][:-1] + ("#" if spec[last][0][-1] != "#" else "%"), spec[last][1]),) + spec[last + 1 :]
        mid = next(k for k in range(len(spec) // 2, len(spec)) if spec[k][0])
        other_att = spec[:mid] + ((spec[mid][0], (("fg", 36), ("italic", True))),) + spec[mid + 1 :]
        cands = [("equal twin", twin, True), ("last character differs", C.build(other_text), False), ("one run's formatting differs", C.build(other_att), False)]
        sf = fresh_str(f)
        acc.case(True, key=("scale", si), sample=shown)
        if str(f) != sf:
            acc.failure("C19:terminal_string_memo_differs_from_fresh_rendering", shown, "")
        for label, g, want in cands:
            case = dict(shown, other=label)
            acc.transitions += 1
            if (fresh_str(g) == sf) is not want:
                acc.failure("harness:scale_twin", case, "")
                continue
            for rnd in range(2):  # before and after hashing / rendering both
                try:
                    eq, ne, eq2 = (f == g), (f != g), (g == f)
                except Exception as ex:  # noqa
                    acc.failure("C19:eq_raises:" + type(ex).__name__, case, repr(ex))
                    break
                if eq is not want or ne is want or eq2 is not want:
                    acc.failure("C19:eq_vs_terminal_string", case, "==:%r !=:%r reversed==:%r, terminal strings equal: %r" % (eq, ne, eq2, want))
                    break
                if want and hash(f) != hash(g):
                    acc.failure("C19:equal_but_hash_differs", case, "")
                    break
            d = {f: 1}
            if (g in d) is not want:
                acc.failure("C19:dict_lookup", case, "membership %r, expected %r" % (g in d, want))
        for s_, want in ((sf, True), (f.s, sf == f.s), (sf + "x", False)):
            if (f == s_) is not want or (s_ == f) is not want or (want and hash(s_) != hash(f)):
                acc.failure("C19:eq_str_vs_terminal_string", dict(shown, s="terminal string" if s_ is sf else "other"), "")
        if len(spec) <= 400:
            # eval() of a sum of thousands of terms exceeds the Python compiler's recursion limit: that is eval's limit, not repr's
            repr_check(acc, f, dict(shown, op="repr"), ns)
    return acc.export()


def rendered_offsets(f):
    """Offsets in the fresh terminal string at which each run's rendering starts, and where its text starts."""
    from curtsies.formatstring import Chunk

    starts, text_starts, pos = [], [], 0
    for c in f.chunks:
        piece = Chunk(str(c.s), dict(c.atts)).color_str
        starts.append(pos)
        k = piece.find(c.s) if c.s else -1
        text_starts.append(pos + (k if k >= 0 else 0))
        pos += len(piece)
    return starts, text_starts, pos


def shard_history(args):
    """(a) comparison of a NEVER RENDERED many-run value with near misses of its terminal string (a character inserted / removed /
    changed at the start of every run's rendering, where its text starts, and at the ends) - fresh object per comparison, then the
    same after rendering; (b) the equal partner of a comparison dies and other values of the same rendered length are created where it
    lived (id reuse): every one of them must still compare unequal, both ways."""
    tier, seed, idx, nshards = args
    import gc

    acc = Acc(seed=seed, sample_stride=4999)
    specs = [C.scale_spec(n, sh) for n, sh in ((40, "runs7"), (64, "unit_runs"), (210, "runs7"), (90, "words"), (333, "wide"), (36, "one"), (130, "unit_runs"), (1500, "runs7"))]
    specs += [sp for sp in C.exotic_specs() if len(sp) >= 8][:6]
    # run texts that hold escape sequences as ordinary characters (what `f + str(g)` builds), U+009B included
    specs += [(("x\x1b[31my\x1b[39m", ()),), (("a\x9bbc", (("fg", 31),)), ("d", ())), (("p", (("bold", True),)), ("\x1b[1mq\x1b[0m", ()), ("r\x9b0m", (("bg", 44),))), (("\x1b[", ()), ("31m", (("fg", 32),)))]
    for si in range(idx, len(specs), nshards):
        spec = specs[si]
        shown = {"value": {"characters": sum(len(t) for t, _ in spec), "runs": len(spec), "first_runs": C.show_spec(spec[:3])}}
        ref = C.build(spec)
        sf = fresh_str(ref)
        starts, text_starts, total = rendered_offsets(ref)
        pts = sorted(set(starts[:20] + starts[-20:] + text_starts[:20] + text_starts[-20:] + [0, 1, total - 1, total, total // 2]))
        pts = [p_ for p_ in pts if 0 <= p_ <= total]
        for p_ in pts:
            for kind in ("insert", "delete", "change"):
                if kind == "insert":
                    s2 = sf[:p_] + "Q" + sf[p_:]
                elif kind == "delete":
                    s2 = sf[:p_] + sf[p_ + 1 :]
                else:
                    s2 = sf[:p_] + ("#" if sf[p_ : p_ + 1] != "#" else "%") + sf[p_ + 1 :]
                if s2 == sf:
                    continue
                for rendered_first in (False, True):
                    f = C.build(spec)
                    if rendered_first:
                        str(f), hash(f)
                    case = dict(shown, compared_with="terminal string with one character %sd at offset %d of %d" % (kind.rstrip("e"), p_, total), rendered_first=rendered_first)
                    acc.case(True, key=("near", si, p_, kind, rendered_first), sample=case)
                    acc.transitions += 1
                    try:
                        a, b, c_, d = (f == s2), (s2 == f), (f != s2), (s2 != f)
                    except Exception as ex:  # noqa
                        acc.failure("C19:eq_raises:" + type(ex).__name__, case, repr(ex))
                        continue
                    if a or b or not c_ or not d:
                        acc.failure("C19:eq_str_vs_terminal_string", case, "f==s:%r s==f:%r f!=s:%r s!=f:%r, expected unequal" % (a, b, c_, d))
        # the exact terminal string, never rendered / rendered
        for rendered_first in (False, True):
            f = C.build(spec)
            if rendered_first:
                str(f)
            if not (f == sf and sf == f) or f != sf:
                acc.failure("C19:eq_str_vs_terminal_string", dict(shown, compared_with="its exact terminal string", rendered_first=rendered_first), "expected equal")
        # (b) dead partner
        last = next((k for k in range(len(spec) - 1, -1, -1) if spec[k][0]), None)
        if last is None:
            continue
        t_ = spec[last][0]
        other = spec[:last] + ((t_[:-1] + ("#" if t_[-1] != "#" else "%"), spec[last][1]),) + spec[last + 1 :]
        current = C.build(spec)
        for rnd in range(3):
            previous = C.build(spec)
            str(previous), str(current), hash(previous), hash(current)
            ok = (current == previous) and (previous == current) and (current == previous)
            if not ok:
                acc.failure("C19:eq_vs_terminal_string", dict(shown, other="equal twin"), "expected equal")
            address = id(previous)
            del previous
            gc.collect()
            keep = []
            hit = False
            for k in range(1500):
                cand = C.build(other)
                str(cand)
                hit = hit or id(cand) == address
                acc.transitions += 1
                eq, eq2 = (current == cand), (cand == current)
                if eq or eq2 or (current != cand) is False:
                    acc.failure("C19:eq_vs_terminal_string", dict(shown, other="a different value of the same rendered length, created after the equal partner of an earlier comparison died", candidate_number=k, same_address_as_dead_partner=id(cand) == address),
                                "==:%r reversed==:%r although the terminal strings differ" % (eq, eq2))
                    break
                if hit and k > 40:
                    break
                keep.append(cand)
            acc.case(True, key=("dead", si, rnd), sample=dict(shown, family="dead partner"))
            if hit:
                acc.add("dead_partner_address_reused")
            del keep
    return acc.export()


def run(ctx):
    rep = Report()
    for d in ctx.pmap(shard_history, [(ctx.tier, ctx.seed, i, 18) for i in range(18)]):
        rep.merge(d, "near_miss_strings_and_dead_partners")
    repeat.run_into(ctx, rep, "C19")
    for d in ctx.pmap(shard_scale, [(ctx.tier, ctx.seed, i, 32) for i in range(32)]):
        rep.merge(d, "scale_sweep")
    for d in ctx.pmap(shard_pairs, [(ctx.tier, ctx.seed, i) for i in range(NSHARDS)]):
        rep.merge(d, "pairs")
    for d in ctx.pmap(shard_repr, [(ctx.tier, ctx.seed, i) for i in range(16)]):
        rep.merge(d, "repr")
    for d in ctx.pmap(shard_repr_texts, [(ctx.tier, ctx.seed, i) for i in range(16)]):
        rep.merge(d, "repr_texts")
    rep.validated = rep.n
    rep.rule = (
        "all ordered pairs over the universe (%d layouts: U_layout(3,2,P3) + bold=False / run-boundary twins) extended with values derived by "
        "6 operations from already rendered+hashed operands; 'same terminal string' is decided on a fresh rendering from new run objects; each value against a pool of plain str "
        "(texts and terminal strings), dict lookups, repr round trip for every value with >=1 run and for quote/backslash/newline texts x "
        "24 attribute sets; non-trivial pair = same text or equal terminal string; states = distinct reprs" % len(universe(ctx.tier))
    )
    rep.assumptions = ["no comparison with bytes", "False == absent for repr round trip"]
    return rep
