"""C19 - equality, hashing and repr of FmtStr are coherent with what it displays (DESIGN.md 4/C19).

Space  : all ordered pairs over U = U_layout(3,2,P3) (820 values: same text/different formatting, empty runs, zero-run value)
         + U_layout(2,2,P_false) (bold=False variants, same display / different run boundaries) ; every value against a pool of plain
         str (the universe's texts and the universe's own terminal strings); repr for every value with >= 1 run plus quote /
         backslash / newline texts.
Oracle : (f == g) == (str(f) == str(g)); (f != g) is its negation; symmetric; (f == s) == (s == f) == (str(f) == s);
         equal => equal hashes (FmtStr/FmtStr and FmtStr/str); dict/set lookup agrees with ==;
         eval(repr(f), vars(curtsies.fmtfuncs)) has the same cells as f.
"""
from mc import cells as C
from mc.runner import Acc, Report

LEVEL = "model_checking"
NSHARDS = 64

P_FALSE = ((), (("bold", False),), (("bold", False), ("fg", 31)), (("fg", 31),))
REPR_TEXTS = ("it's", 'say "hi"', "back\\slash", "new\nline", "tab\t", "é", "Ｅ", "'\"", "")


def universe(tier):
    specs = list(C.layouts(3, 2)) + list(C.layouts(2, 2, P_FALSE, min_runs=1))
    if tier == "thorough":
        specs += list(C.layouts(4, 1, C.P3, min_runs=4)) + list(C.layouts(3, 2, P_FALSE, min_runs=3))
    return specs


def shard_pairs(args):
    tier, seed, idx = args
    acc = Acc(seed=seed)
    specs = universe(tier)
    vals = [C.build(s) for s in specs]
    strs = [str(v) for v in vals]
    hashes = [hash(v) for v in vals]
    table = {}
    for i, v in enumerate(vals):
        table.setdefault(v, i)
    by_str = {}
    for i, s in enumerate(strs):
        by_str.setdefault(s, i)
    pool = sorted(set([v.s for v in vals] + strs[::7]))
    for i in range(idx, len(vals), NSHARDS):
        f, sf = vals[i], strs[i]
        for j in range(len(vals)):
            g = vals[j]
            want = sf == strs[j]
            nontriv = (f.s == g.s and i != j) or want
            acc.case(nontriv, key=("p", i, j), sample=lambda: {"f": C.show_spec(specs[i]), "g": C.show_spec(specs[j])})
            acc.transitions += 1
            case = {"f": C.show_spec(specs[i]), "g": C.show_spec(specs[j])}
            try:
                eq, ne, eq2 = (f == g), (f != g), (g == f)
            except Exception as ex:  # noqa
                acc.failure("C19:eq_raises:" + type(ex).__name__, case, repr(ex))
                continue
            if eq is not want or ne is want or eq2 is not want:
                acc.failure("C19:eq_vs_terminal_string", case, "==:%r !=:%r reversed==:%r, terminal strings equal: %r" % (eq, ne, eq2, want))
            if want and hashes[i] != hashes[j]:
                acc.failure("C19:equal_but_hash_differs", case, "")
            acc.outcome("equal" if want else "unequal")
        # dictionary / set behaviour
        k = table.get(f)
        if k is None or strs[k] != sf or k != by_str[sf]:
            acc.failure("C19:dict_lookup", {"f": C.show_spec(specs[i])}, "lookup gave %r, expected index %r" % (k, by_str[sf]))
        if (sf in table) is not True and sf in by_str:
            acc.failure("C19:dict_lookup_by_str", {"f": C.show_spec(specs[i])}, "plain terminal string not found as key")
        for s in pool:
            want = sf == s
            case = {"f": C.show_spec(specs[i]), "s": s}
            acc.case(want or f.s == s, key=("s", i, s), sample=case)
            acc.transitions += 1
            a, b, c, d = (f == s), (s == f), (f != s), (s != f)
            if a is not want or b is not want or c is want or d is want:
                acc.failure("C19:eq_str_vs_terminal_string", case, "f==s:%r s==f:%r f!=s:%r s!=f:%r want %r" % (a, b, c, d, want))
            if want and hash(s) != hashes[i]:
                acc.failure("C19:equal_str_but_hash_differs", case, "")
    return acc.export()


def repr_check(acc, f, case, ns):
    fc = C.cells(f)
    try:
        r = repr(f)
        g = eval(r, dict(ns))
        gc = C.cells(g) if not isinstance(g, str) else [(c, ()) for c in g]
    except Exception as ex:  # noqa
        acc.failure("C19:repr_eval_raises:" + type(ex).__name__, case, "%r" % (ex,))
        return
    acc.state(hash(r))
    if gc != fc:
        acc.failure("C19:repr_roundtrip", case, "repr %r evaluates to %r, value is %r" % (r, gc, fc))


def shard_repr(args):
    tier, seed, idx = args
    import curtsies.fmtfuncs

    ns = vars(curtsies.fmtfuncs)
    acc = Acc(seed=seed)
    specs = [s for s in universe(tier) if len(s) >= 1]
    for i in range(idx, len(specs), 16):
        case = {"f": C.show_spec(specs[i]), "op": "repr"}
        acc.case(True, key=("r", specs[i]), sample=case)
        acc.transitions += 1
        repr_check(acc, C.build(specs[i]), case, ns)
    return acc.export()


def shard_repr_texts(args):
    tier, seed, idx = args
    import curtsies.fmtfuncs
    from mc.props import c01

    ns = vars(curtsies.fmtfuncs)
    acc = Acc(seed=seed)
    for ti, t in enumerate(REPR_TEXTS):
        for pi, kw in enumerate(c01.PAL24):
            if (ti * 24 + pi) % 16 != idx:
                continue
            for second in (None, "z"):
                spec = [(t, tuple(sorted(c01.expected_atts(kw)))) ]
                if second:
                    spec.append((second, (("bg", 42),)))
                case = {"f": C.show_spec(spec), "op": "repr"}
                acc.case(True, key=("rt", t, pi, second), sample=case)
                acc.transitions += 1
                repr_check(acc, C.build(spec), case, ns)
    return acc.export()


def run(ctx):
    rep = Report()
    for d in ctx.pmap(shard_pairs, [(ctx.tier, ctx.seed, i) for i in range(NSHARDS)]):
        rep.merge(d, "pairs")
    for d in ctx.pmap(shard_repr, [(ctx.tier, ctx.seed, i) for i in range(16)]):
        rep.merge(d, "repr")
    for d in ctx.pmap(shard_repr_texts, [(ctx.tier, ctx.seed, i) for i in range(16)]):
        rep.merge(d, "repr_texts")
    rep.validated = rep.n
    rep.rule = (
        "all ordered pairs over %d values (U_layout(3,2,P3) + bold=False / run-boundary twins), each value against a pool of plain str "
        "(texts and terminal strings), dict lookups, repr round trip for every value with >=1 run and for quote/backslash/newline texts x "
        "24 attribute sets; non-trivial pair = same text or equal terminal string; states = distinct reprs" % len(universe(ctx.tier))
    )
    rep.assumptions = ["no comparison with bytes", "False == absent for repr round trip"]
    return rep
