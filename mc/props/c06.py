"""C06 - indexing, slicing, +, * and join act like str and carry formatting along (DESIGN.md 4/C06).

Space  : f in U_layout(k, L, P3) (0..k runs, empty runs, the zero-run value, distinct characters):
           every int index in [-len-2, len+2]; every slice (a, b), a, b in [-len-2, len+2] + {None};  f * n, n in 0..3
         every ordered pair of an 820-value universe for f + g, plus f + str and str + f
         sep.join(items): 40 separators x every list of <= 3 items from a 6-element pool mixing str and FmtStr
Oracle : the same operation on the cell-list model (Python list indexing / slicing / concatenation / repetition / join);
         len(result) and result.s agree; an int index raises IndexError exactly when str does; operands unchanged.
"""
import itertools

from mc import cells as C
from mc import repeat
from mc.runner import Acc, Report

LEVEL = "model_checking"
NSHARDS = 64


def uni_bounds(tier):
    return (4, 3) if tier == "thorough" else (3, 2)


def index_universe(tier):
    """(description, spec, how): plain layouts, plus values whose runs are the same objects repeated (f*2, f+f, join)."""
    k, L = uni_bounds(tier)
    for spec in C.layouts(k, L):
        yield spec, None
    for spec in C.layouts(2, 2):
        for how in C.REPEAT_HOWS:
            yield spec, how


def shard_index(args):
    tier, seed, idx = args
    acc = Acc(seed=seed)
    for i, (spec0, how) in enumerate(index_universe(tier)):
        if i % NSHARDS != idx:
            continue
        if how is None:
            spec = spec0
            f = C.build(spec)
            fc = C.cells(f)
            want_cells = C.spec_cells(spec)
        else:
            f, want_cells = C.build_repeated(spec0, how)
            fc = C.cells(f)
            spec = tuple(spec0) + (("<" + how + ">", ()),)  # only used as a description / case key
        if fc != want_cells:
            acc.failure("harness:universe_build", {"f": C.show_spec(spec)}, "")
            continue
        snap = C.snapshot(f)
        n = len(fc)
        text = "".join(c for c, _ in fc)
        if len(f) != n or f.s != text:
            acc.failure("C06:len_or_text", {"f": C.show_spec(spec)}, "len=%r s=%r" % (len(f), f.s))
        rng = list(range(-n - 2, n + 3))
        for j in rng:
            case = {"f": C.show_spec(spec), "op": "index", "i": j}
            acc.case(True, key=(spec, "i", j), sample=case)
            acc.transitions += 1
            try:
                want = [fc[j]]
                want_exc = False
            except IndexError:
                want_exc = True
            try:
                r = f[j]
                got = C.cells(r)
                got_exc = False
            except IndexError:
                got_exc = True
            except Exception as ex:  # noqa
                acc.failure("C06:index_raises:" + type(ex).__name__, case, repr(ex))
                continue
            if want_exc != got_exc:
                acc.failure("C06:index_error_mismatch", case, "str raises IndexError: %s, FmtStr raises: %s" % (want_exc, got_exc))
            elif not want_exc and (got != want or r.s != text[j] or len(r) != 1):
                acc.failure("C06:index_result", case, "got %r expected %r" % (got, want))
        for a in rng + [None]:
            for b in rng + [None]:
                case = {"f": C.show_spec(spec), "op": "slice", "a": a, "b": b}
                nontriv = n > 0 and not (a is None and b is None)
                acc.case(nontriv, key=(spec, "s", a, b), sample=case)
                acc.transitions += 1
                want = fc[a:b]
                try:
                    r = f[a:b]
                    got = C.cells(r)
                except Exception as ex:  # noqa
                    acc.failure("C06:slice_raises:" + type(ex).__name__, case, repr(ex))
                    continue
                acc.state(hash(tuple(got)))
                if got != want:
                    acc.failure("C06:slice_result", case, "got %r expected %r" % (got, want))
                elif r.s != text[a:b] or len(r) != len(want):
                    acc.failure("C06:slice_text_or_len", case, "s=%r len=%r" % (r.s, len(r)))
        for m in range(0, 4):
            case = {"f": C.show_spec(spec), "op": "mul", "n": m}
            acc.case(m > 1 and n > 0, key=(spec, "m", m), sample=case)
            acc.transitions += 1
            try:
                r = f * m
                got = C.cells(r)
            except Exception as ex:  # noqa
                acc.failure("C06:mul_raises:" + type(ex).__name__, case, repr(ex))
                continue
            if got != fc * m or r.s != text * m or len(r) != n * m:
                acc.failure("C06:mul_result", case, "got %r" % (got,))
        if C.snapshot(f) != snap:
            acc.failure("C06:operand_changed", {"f": C.show_spec(spec)}, "changed by indexing/slicing/*")
    return acc.export()


def shard_exotic(args):
    """Values just outside 'small' (5..33 runs, run lengths up to 32, unusual characters): every index and every slice whose bounds lie
    at / next to a run boundary, the ends, or their negative twins; +, * and join with themselves."""
    tier, seed, idx = args
    acc = Acc(seed=seed)
    specs = C.exotic_specs() + C.huge_specs() + C.scale_specs(tier == "thorough")
    nsmall = len(C.exotic_specs())
    for si in range(idx, len(specs), 48):
        spec = specs[si]
        f = C.build(spec)
        fc = C.spec_cells(spec)
        text = "".join(c for c, _ in fc)
        n = len(fc)
        snap = C.snapshot(f)
        pts = C.boundary_points(spec) if si < nsmall else C.few_points(spec)
        shown = C.show_spec(spec)
        if C.cells(f) != fc or len(f) != n or f.s != text:
            acc.failure("C06:len_or_text", {"f": shown}, "")
            continue
        for j in pts:
            case = {"f": shown, "op": "index", "i": j}
            acc.case(True, key=("xi", si, j), sample=case)
            acc.transitions += 1
            try:
                want = [fc[j]]
            except IndexError:
                want = IndexError
            try:
                got = C.cells(f[j])
            except IndexError:
                got = IndexError
            except Exception as ex:  # noqa
                got = repr(ex)
            if got != want:
                acc.failure("C06:index_result", case, "got %r expected %r" % (got, want))
        for a in pts + [None]:
            for b in pts + [None]:
                case = {"f": shown, "op": "slice", "a": a, "b": b}
                acc.case(True, key=("xs", si, a, b), sample=case)
                acc.transitions += 1
                try:
                    r = f[a:b]
                    got = C.cells(r)
                except Exception as ex:  # noqa
                    acc.failure("C06:slice_raises:" + type(ex).__name__, case, repr(ex))
                    continue
                if got != fc[a:b] or r.s != text[a:b] or len(r) != len(fc[a:b]):
                    acc.failure("C06:slice_result", case, "got %r expected %r" % (got, fc[a:b]))
        for label, fn, want in (
            ("f+f", lambda: f + f, fc + fc), ("f*3", lambda: f * 3, fc * 3), ("'<'+f+'>'", lambda: "<" + f + ">", [("<", ())] + fc + [(">", ())]),
            ("f.join([f,'k',f])", lambda: f.join([f, "k", f]), fc + fc + [("k", ())] + fc + fc),
            ("f.join(generator)", lambda: f.join(x for x in ["p", f]), [("p", ())] + fc + fc),
            ("f.join(tuple)", lambda: f.join(("p", "q")), [("p", ())] + fc + [("q", ())]),
        ):
            case = {"f": shown, "op": label}
            acc.case(True, key=("xo", si, label), sample=case)
            acc.transitions += 1
            try:
                r = fn()
                got = C.cells(r)
            except Exception as ex:  # noqa
                acc.failure("C06:op_raises:" + type(ex).__name__, case, repr(ex))
                continue
            if got != want or len(r) != len(want) or r.s != "".join(c for c, _ in want):
                acc.failure("C06:op_result", case, "got %r" % (got[:40],))
        if C.snapshot(f) != snap:
            acc.failure("C06:operand_changed", {"f": shown}, "")
    return acc.export()


def shard_measured_first(args):
    """Operands whose every memo (s, len, width, str) was filled before the operation, with double-width / zero-width characters in
    them: len / text / cells of f*n, f+g, str+f, join and slices must not pick up a wrong memo."""
    tier, seed, idx = args
    acc = Acc(seed=seed)
    k = 0
    for text in ("你好!", "aＥ", "e\u0301x", "Ｅ\u200dＥ", "ab"):
        for spec in C.cuts(text, max_runs=2, palette=C.P2):
            k += 1
            if k % 4 != idx:
                continue
            fc = C.spec_cells(spec)
            shown = C.show_spec(spec)

            def fresh():
                f = C.build(spec)
                str(f), len(f), f.s, f.width
                return f

            ops = [
                ("f*2", lambda f: f * 2, fc * 2), ("f*3", lambda f: f * 3, fc * 3), ("f*1", lambda f: f * 1, fc), ("f+f", lambda f: f + f, fc + fc),
                ("f+'Ｅ'", lambda f: f + "Ｅ", fc + [("Ｅ", ())]), ("'好'+f", lambda f: "好" + f, [("好", ())] + fc), ("f[1:]", lambda f: f[1:], fc[1:]),
                ("f.join([f,'Ｅ'])", lambda f: f.join([f, "Ｅ"]), fc + fc + [("Ｅ", ())]), ("f.copy()", lambda f: f.copy(), fc),
            ]
            for label, fn, want in ops:
                case = {"f": shown, "op": label, "operand": "every memo filled first"}
                acc.case(True, key=("mf", spec, label), sample=case)
                acc.transitions += 1
                try:
                    r = fn(fresh())
                    got = C.cells(r)
                    ln, txt = len(r), r.s
                    sl = C.cells(r[len(want) - 1 :]) if want else []
                except Exception as ex:  # noqa
                    acc.failure("C06:op_raises:" + type(ex).__name__, case, repr(ex))
                    continue
                if got != want or ln != len(want) or txt != "".join(c for c, _ in want) or sl != want[len(want) - 1 :]:
                    acc.failure("C06:op_result", case, "cells %r len %r text %r last-char slice %r; expected %r" % (got, ln, txt, sl, want))
    return acc.export()


def shard_add(args):
    tier, seed, idx = args
    acc = Acc(seed=seed)
    specs = list(C.layouts(3, 2))
    vals = [C.build(s) for s in specs]
    vc = [C.cells(v) for v in vals]
    snaps = [C.snapshot(v) for v in vals]
    for i in range(idx, len(specs), NSHARDS):
        f, fc = vals[i], vc[i]
        for j in range(len(specs)):
            g, gc = vals[j], vc[j]
            case = {"f": C.show_spec(specs[i]), "g": C.show_spec(specs[j]), "op": "add"}
            acc.case(bool(fc) and bool(gc), key=("add", i, j), sample=case)
            acc.transitions += 1
            try:
                r = f + g
                got = C.cells(r)
            except Exception as ex:  # noqa
                acc.failure("C06:add_raises:" + type(ex).__name__, case, repr(ex))
                continue
            if got != fc + gc or len(r) != len(fc) + len(gc) or r.s != f.s + g.s:
                acc.failure("C06:add_result", case, "got %r" % (got,))
        # plain str on either side: the texts of the 820 universe values
        for t in ("", "X", "XY", "x\ny", "u\x9b1mv", "\x9b"):
            tc = [(c, ()) for c in t]
            for side in ("right", "left"):
                case = {"f": C.show_spec(specs[i]), "str": t, "op": "add_str_" + side}
                acc.case(bool(t), key=("adds", i, t, side), sample=case)
                acc.transitions += 1
                try:
                    r = f + t if side == "right" else t + f
                    got = C.cells(r)
                except Exception as ex:  # noqa
                    acc.failure("C06:add_str_raises:" + type(ex).__name__, case, repr(ex))
                    continue
                want = fc + tc if side == "right" else tc + fc
                if got != want or len(r) != len(want) or r.s != "".join(c for c, _ in want):
                    acc.failure("C06:add_str_result", case, "got %r expected %r" % (got, want))
        if C.snapshot(f) != snaps[i]:
            acc.failure("C06:operand_changed", {"f": C.show_spec(specs[i])}, "changed by +")
    if idx == 0:
        for j, v in enumerate(vals):
            if C.snapshot(v) != snaps[j]:
                acc.failure("C06:operand_changed", {"f": C.show_spec(specs[j])}, "right operand changed by +")
    return acc.export()


JOIN_POOL = (
    ("str", ""),
    ("str", "x"),
    ("str", "yz"),
    ("str", "u\x9b1mv"),  # U+009B is an ordinary character of a plain str (only ESC sequences of str arguments are interpreted)
    ("fmt", (("p", (("fg", 31),)),)),
    ("fmt", (("q", (("bold", True), ("fg", 34))), ("", ()), ("r", ()))),
    ("fmt", ()),
)


def shard_join(args):
    tier, seed, idx = args
    acc = Acc(seed=seed)
    specs = list(C.layouts(3, 2))
    step = len(specs) // 40
    seps = specs[::step][:40] if tier != "thorough" else specs[::4]
    pool = [v if k == "str" else C.build(v) for k, v in JOIN_POOL]
    pool_cells = [C.cells(p) for p in pool]
    pool_snaps = [None if isinstance(p, str) else C.snapshot(p) for p in pool]
    for si in range(idx, len(seps), 16):
        sep = C.build(seps[si])
        sep_nchunks = len(sep.chunks)
        pool_nchunks = [0 if isinstance(p, str) else len(p.chunks) for p in pool]
        sc = C.cells(sep)
        snap = C.snapshot(sep)
        for n in range(0, 4):
            for items in itertools.product(range(len(pool)), repeat=n):
                case = {"sep": C.show_spec(seps[si]), "items": [JOIN_POOL[i] for i in items], "op": "join"}
                acc.case(n >= 2, key=("join", seps[si], items), sample=case)
                acc.transitions += 1
                want = []
                for t, i in enumerate(items):
                    if t:
                        want += sc
                    want += pool_cells[i]
                try:
                    r = sep.join([pool[i] for i in items])
                    got = C.cells(r)
                except Exception as ex:  # noqa
                    acc.failure("C06:join_raises:" + type(ex).__name__, case, repr(ex))
                    continue
                if got != want or len(r) != len(want) or r.s != "".join(c for c, _ in want):
                    acc.failure("C06:join_result", case, "got %r expected %r" % (got, want))
                # the items and the separator are the caller's values: a join that changes one of them is reported at once (and the
                # pool is rebuilt, so that one aliasing bug cannot snowball through the thousands of joins that follow)
                if any(not isinstance(p, str) and len(p.chunks) != nc for p, nc in zip(pool, pool_nchunks)) or len(sep.chunks) != sep_nchunks:
                    acc.failure("C06:operand_changed", case, "join changed the run list of an item or of the separator")
                    pool = [v if k == "str" else C.build(v) for k, v in JOIN_POOL]
                    sep = C.build(seps[si])
        if C.snapshot(sep) != snap:
            acc.failure("C06:operand_changed", {"f": C.show_spec(seps[si])}, "separator changed by join")
    for p, s in zip(pool, pool_snaps):
        if s is not None and C.snapshot(p) != s:
            acc.failure("C06:operand_changed", {}, "item changed by join")
    return acc.export()


class Loud(str):
    """A str subclass whose __str__ is not its character data (like the members of a `class X(str, Enum)`)."""

    def __str__(self):
        return "WRONG"


def shard_special_operands(args):
    """(a) str-subclass operands whose __str__ differs from their characters, against cold operands and operands whose text / length /
    terminal string were read before; (b) join over a lazy iterable whose items are produced by joins on the same separator object
    (recursive rendering of a tree)."""
    tier, seed, idx = args
    import enum

    from curtsies.formatstring import fmtstr

    class Colour(str, enum.Enum):
        A = "ab"
        B = ""

    acc = Acc(seed=seed)
    specs = list(C.layouts(3, 2))[idx::16] + C.exotic_specs()[idx::16]
    odd = [("Loud('ab')", lambda: Loud("ab"), "ab"), ("Enum member 'ab'", lambda: Colour.A, "ab"), ("Loud('')", lambda: Loud(""), ""), ("Enum member ''", lambda: Colour.B, "")]
    for spec in specs:
        fc = C.spec_cells(spec)
        for warm in ("cold", "s", "len", "str", "all"):
            for oname, make, chars in odd:
                oc = [(c, ()) for c in chars]
                mid = len(fc) // 2
                menu = (
                    ("f + x", lambda f, x: f + x, fc + oc), ("x + f", lambda f, x: x + f, oc + fc), ("f.join([x, 'k', x])", lambda f, x: f.join([x, "k", x]), oc + fc + [("k", ())] + fc + oc),
                    ("fmtstr('-').join([x, f])", lambda f, x: fmtstr("-").join([x, f]), oc + [("-", ())] + fc), ("f.splice(x, mid)", lambda f, x: f.splice(x, mid), fc[:mid] + oc + fc[mid:]),
                    ("f.append(x)", lambda f, x: f.append(x), fc + oc),
                )
                for label, fn, want in menu:
                    f = C.build(spec)
                    if warm in ("s", "all"):
                        f.s
                    if warm in ("len", "all"):
                        len(f)
                    if warm in ("str", "all"):
                        str(f)
                    case = {"f": C.show_spec(spec), "operand": oname, "op": label, "read_before": warm}
                    acc.case(True, key=("odd", spec, warm, oname, label), sample=case)
                    acc.transitions += 1
                    try:
                        r = fn(f, make())
                        got = C.cells(r)
                    except Exception as ex:  # noqa
                        acc.failure("C06:op_raises:" + type(ex).__name__, case, repr(ex))
                        continue
                    if got != want or r.s != "".join(c for c, _ in want) or len(r) != len(want) or len(r.s) != len(r):
                        acc.failure("C06:str_subclass_operand", case, "cells %r text %r len %r, expected %r" % (got[:8], r.s[:20], len(r), want[:8]))
    # (b) recursive joins through a generator, same separator object at every level
    trees = [["a", ["b", "c"], "d"], [["x"], [["y", "z"], "w"], []], ["p"], [[[["q", "r"]]], "s", ["t", ["u", ["v", ["w", "x"]]]]]]
    for si, sspec in enumerate(specs[:12] + [()]):
        sep = C.build(sspec)
        sc = C.cells(sep)
        for ti, tree in enumerate(trees):
            for kind in ("generator", "list"):
                def show(node):
                    if isinstance(node, str):
                        return fmtstr(node, "red") if node in "bx" else node
                    if kind == "generator":
                        return "[" + sep.join(show(c) for c in node) + "]"
                    return "[" + sep.join([show(c) for c in node]) + "]"

                def model(node):
                    if isinstance(node, str):
                        return [(node, (("fg", 31),) if node in "bx" else ())]
                    out = [("[", ())]
                    for k, c in enumerate(node):
                        if k:
                            out += sc
                        out += model(c)
                    return out + [("]", ())]

                case = {"sep": C.show_spec(sspec), "tree": tree, "items_as": kind, "op": "nested joins on one separator object"}
                acc.case(True, key=("tree", sspec, ti, kind), sample=case)
                acc.transitions += 1
                try:
                    got = C.cells(show(tree))
                except Exception as ex:  # noqa
                    acc.failure("C06:join_raises:" + type(ex).__name__, case, repr(ex))
                    continue
                if got != model(tree):
                    acc.failure("C06:join_result", case, "got %r expected %r" % ("".join(c for c, _ in got), "".join(c for c, _ in model(tree))))
    return acc.export()


def shard_raw_twins(args):
    """Two live values with the SAME terminal string (so equal, equal hash) but DIFFERENT text: one has formatted runs, in the other
    every run is unformatted and holds the first one's escape sequences as ordinary characters (what `f + str(g)` builds).  Index,
    slices, +, * and join on one, then the other, in both orders - each against its own cells."""
    tier, seed, idx = args
    from curtsies.formatstring import Chunk, FmtStr

    acc = Acc(seed=seed)
    sizes = (5, 12, 31, 64, 131, 300)
    for si, n in enumerate(sizes):
        if si % 6 != idx:
            continue
        for shape in ("runs7", "unit_runs", "plain_stretches"):
            spec = C.scale_spec(n, shape)
            for order in ("formatted_first", "raw_first"):
                a = C.build(spec)
                b = FmtStr(*[Chunk(c.color_str) for c in a.chunks])
                if str(a) != str(b) or a != b or hash(a) != hash(b):
                    acc.failure("harness:raw_twin", {"characters": n, "shape": shape}, "")
                    continue
                ca, cb = C.cells(a), C.cells(b)
                objs = [("formatted", a, ca), ("raw", b, cb)]
                if order == "raw_first":
                    objs.reverse()
                pts = sorted({0, 1, 2, 7, len(ca) // 2, len(ca) - 1, len(ca), len(cb) // 2, len(cb) - 3, len(cb)})
                for x in pts:
                    for y in pts + [None]:
                        for who, obj, cells_ in objs + objs[:1]:
                            case = {"value": {"characters": len(cells_), "runs": len(spec), "which": who}, "twin": "same terminal string, different text", "order": order, "op": "f[%r:%r]" % (x, y)}
                            acc.case(True, key=("raw", n, shape, order, x, y, who))
                            acc.transitions += 1
                            try:
                                r = obj[x:y]
                                got = C.cells(r)
                            except Exception as ex:  # noqa
                                acc.failure("C06:slice_raises:" + type(ex).__name__, case, repr(ex))
                                continue
                            if got != cells_[x:y] or len(r) != len(cells_[x:y]) or r.s != "".join(c for c, _ in cells_[x:y]):
                                acc.failure("C06:slice_result", case, "got %r expected %r" % (got[:6], cells_[x:y][:6]))
                    for who, obj, cells_ in objs + objs[:1]:
                        case = {"value": {"characters": len(cells_), "runs": len(spec), "which": who}, "twin": "same terminal string, different text", "order": order, "op": "f[%r]" % x}
                        try:
                            got = C.cells(obj[x])
                        except IndexError:
                            got = IndexError
                        want = [cells_[x]] if x < len(cells_) else IndexError
                        if got != want:
                            acc.failure("C06:index_result", case, "got %r expected %r" % (got, want))
                for who, obj, cells_ in objs + objs[:1]:
                    for label, fn, want in (("f+f", lambda o: o + o, cells_ + cells_), ("f*2", lambda o: o * 2, cells_ * 2), ("f.join(['p', f])", lambda o: o.join(["p", o]), [("p", ())] + cells_ + cells_)):
                        case = {"value": {"characters": len(cells_), "runs": len(spec), "which": who}, "twin": "same terminal string, different text", "order": order, "op": label}
                        acc.transitions += 1
                        try:
                            r = fn(obj)
                            if C.cells(r) != want or len(r) != len(want):
                                acc.failure("C06:op_result", case, "got %r" % (C.cells(r)[:6],))
                        except Exception as ex:  # noqa
                            acc.failure("C06:op_raises:" + type(ex).__name__, case, repr(ex))
    return acc.export()


def run(ctx):
    rep = Report()
    for d in ctx.pmap(shard_raw_twins, [(ctx.tier, ctx.seed, i) for i in range(6)]):
        rep.merge(d, "raw_escape_twins_same_terminal_string_different_text")
    for d in ctx.pmap(shard_special_operands, [(ctx.tier, ctx.seed, i) for i in range(16)]):
        rep.merge(d, "str_subclass_operands_and_nested_joins")
    repeat.run_into(ctx, rep, "C06")
    for d in ctx.pmap(shard_index, [(ctx.tier, ctx.seed, i) for i in range(NSHARDS)]):
        rep.merge(d, "index_slice_mul")
    for d in ctx.pmap(shard_exotic, [(ctx.tier, ctx.seed, i) for i in range(48)]):
        rep.merge(d, "long_and_exotic_values")
    for d in ctx.pmap(shard_measured_first, [(ctx.tier, ctx.seed, i) for i in range(4)]):
        rep.merge(d, "measured_operands")
    for d in ctx.pmap(shard_add, [(ctx.tier, ctx.seed, i) for i in range(NSHARDS)]):
        rep.merge(d, "add")
    for d in ctx.pmap(shard_join, [(ctx.tier, ctx.seed, i) for i in range(16)]):
        rep.merge(d, "join")
    rep.validated = rep.n
    k, L = uni_bounds(ctx.tier)
    rep.rule = (
        "U_layout(k=%d, L=%d, P3) x every int index and every slice with bounds in [-len-2, len+2] + None, x repeat counts 0..3; all ordered "
        "pairs of U_layout(3,2,P3) (820 values) for +, str operands on both sides; join of every list of <=3 items from a 6-pool with "
        "separators drawn from the universe. Distinct by construction; non-trivial = non-empty operand and not the identity slice; "
        "states = distinct slice results" % (k, L)
    )
    rep.bounds = {"max_runs": k, "max_run_len": L}
    rep.assumptions = ["alpha tied to display by C01", "steps in slices and n * f are not checked (documented NotImplementedError / not supported)"]
    return rep


def replay(ctx, case):
    spec = tuple((t, tuple(sorted(a.items()))) for t, a in case["f"]) if "f" in case else None
    out = []
    op = case.get("op")
    if op in ("index", "slice", "mul"):
        f = C.build(spec)
        fc = C.cells(f)
        if op == "slice":
            got = C.cells(f[case["a"] : case["b"]])
            if got != fc[case["a"] : case["b"]]:
                out.append(("C06:slice_result", got))
        elif op == "index":
            try:
                want = [fc[case["i"]]]
            except IndexError:
                want = IndexError
            try:
                got = C.cells(f[case["i"]])
            except IndexError:
                got = IndexError
            if got != want:
                out.append(("C06:index_result", got))
        else:
            got = C.cells(f * case["n"])
            if got != fc * case["n"]:
                out.append(("C06:mul_result", got))
    return out
