"""C16 - linesplit word-wraps without losing, reordering or restyling words (DESIGN.md 4/C16).

Space  : every string of length <= N over {a, b, space, tab, newline} (no-word inputs, leading / trailing / multiple whitespace),
         given as plain str and cut into <= 3 runs at every position (formatting changes inside words and inside whitespace), P3;
         columns 1..K.
Oracle : greedy reference wrap on the cell list: words = maximal non-whitespace runs; a word joins the current line iff
         len(line) + 1 + len(word) <= columns, otherwise it starts a new line and a word longer than a line is cut into full pieces.
         Each line's cells equal the reference's, except that the joining space's attributes are only required to (a) equal the gap's
         attributes when the gap is uniformly formatted, (b) otherwise each occur on some character of the gap.
         No line longer than columns, none starting or ending with whitespace; input without words: no exception, no characters.
"""
import itertools

from mc import cells as C
from mc import repeat
from mc.runner import Acc, Report

LEVEL = "model_checking"
SIGMA = ("a", "b", " ", "\t", "\n")


def reference(fc, columns):
    """Returns list of lines; a line is a list of items: ('c', cell) or ('gap', [gap cells])."""
    words, gaps = [], []
    i, n = 0, len(fc)
    cur, gap = [], []
    for cell in fc:
        if cell[0].isspace():
            if cur:
                words.append(cur)
                cur = []
                gap = []
            gap.append(cell)
        else:
            if not cur and words:
                gaps.append(gap)
            cur.append(cell)
    if cur:
        words.append(cur)
    # gaps[i] separates words[i] and words[i+1]
    if not words:
        return []
    assert len(gaps) == len(words) - 1, (words, gaps)

    def pieces(w):
        return [w[k : k + columns] for k in range(0, len(w), columns)]

    lines = [[("c", c) for c in p] for p in pieces(words[0])]
    lens = [len(p) for p in pieces(words[0])]
    for w, g in zip(words[1:], gaps):
        if lens[-1] + 1 + len(w) <= columns:
            lines[-1].append(("gap", g))
            lines[-1].extend(("c", c) for c in w)
            lens[-1] += 1 + len(w)
        else:
            for p in pieces(w):
                lines.append([("c", c) for c in p])
                lens.append(len(p))
    return lines


def check(acc, value, fc, columns, case):
    from curtsies.formatstring import linesplit

    try:
        got = linesplit(value, columns)
    except Exception as ex:  # noqa
        sig = "C16:raises:" + type(ex).__name__
        if not any(not c.isspace() for c, _ in fc):
            sig = "C16:no_words_raises:" + type(ex).__name__
        acc.failure(sig, case, repr(ex))
        return
    want = reference(fc, columns)
    got_cells = [C.cells(line) for line in got]
    acc.state(hash(tuple(tuple(l) for l in got_cells)))
    if not want:
        if any(got_cells):
            acc.failure("C16:no_words_but_characters", case, "got %r" % (got_cells,))
        return
    if len(got_cells) != len(want):
        acc.failure("C16:line_count", case, "got %r, reference %r" % ([l.s for l in got], ["".join(" " if k == "gap" else v[0] for k, v in ln) for ln in want]))
        return
    for gl, wl in zip(got_cells, want):
        if len(gl) > columns:
            acc.failure("C16:line_too_long", case, "%r" % (gl,))
            return
        if len(gl) != len(wl):
            acc.failure("C16:line_text", case, "got %r, reference %r" % ([l.s for l in got], ["".join(" " if k == "gap" else v[0] for k, v in ln) for ln in want]))
            return
        if gl and (gl[0][0].isspace() or gl[-1][0].isspace()):
            acc.failure("C16:line_edge_whitespace", case, "%r" % (gl,))
            return
        for (gc, ga), (kind, v) in zip(gl, wl):
            if kind == "c":
                if gc != v[0]:
                    acc.failure("C16:line_text", case, "got %r" % ([l.s for l in got],))
                    return
                if ga != v[1]:
                    acc.failure("C16:word_restyled", case, "character %r shows %r, had %r" % (gc, ga, v[1]))
                    return
            else:
                if gc != " ":
                    acc.failure("C16:separator_not_one_space", case, "got %r" % (gc,))
                    return
                gap_atts = {a for _, a in v}
                if len(gap_atts) == 1:
                    if ga != next(iter(gap_atts)):
                        acc.failure("C16:separator_formatting_uniform_gap", case, "space shows %r, the whitespace it replaces has %r" % (ga, v))
                        return
                else:
                    allowed = set()
                    for a in gap_atts:
                        allowed.update(a)
                    if any(p not in allowed for p in ga):
                        acc.failure("C16:separator_formatting_alien", case, "space shows %r, the whitespace it replaces has %r" % (ga, v))
                        return


def texts(maxlen):
    for n in range(maxlen + 1):
        for t in itertools.product(SIGMA, repeat=n):
            yield "".join(t)


def shard(args):
    tier, seed, idx, nshards = args
    acc = Acc(seed=seed, sample_stride=49999)
    thorough = tier == "thorough"
    full, two, maxcol = (5, 7, 6) if thorough else (4, 5, 4)
    i = 0
    for t in texts(two):
        i += 1
        if i % nshards != idx:
            continue
        # plain str
        fc = [(c, ()) for c in t]
        for columns in range(1, maxcol + 1):
            case = {"text": t, "columns": columns, "as": "str"}
            acc.case(any(not c.isspace() for c in t), key=("s", t, columns), sample=case)
            acc.transitions += 1
            check(acc, t, fc, columns, case)
        if len(t) <= full:
            specs = C.cuts(t, max_runs=3)
        else:
            specs = C.cuts(t, max_runs=2, palette=C.P2, empties=False)
        for spec in specs:
            f = C.build(spec)
            fc = C.cells(f)
            snap = C.snapshot(f)
            for columns in range(1, maxcol + 1):
                case = {"f": C.show_spec(spec), "columns": columns}
                acc.case(any(not c.isspace() for c in t), key=(spec, columns), sample=case)
                acc.transitions += 1
                check(acc, f, fc, columns, case)
            if C.snapshot(f) != snap:
                acc.failure("C16:operand_changed", {"f": C.show_spec(spec)}, "")
    return acc.export()


GAPS = (" ", "\t\n", "  ")
GAP_ATTS = ((("fg", 31),), (("bold", True), ("fg", 34)), (), (("bg", 42),))
WORD_ATTS = ((), (("underline", True),), (("fg", 33),), ())


def shard_words(args):
    """Word-structured family: 2..4 words whose lengths range up to 2*columns+1 (words that are exact multiples of the line length,
    words that need cutting, short words after them), every gap formatted differently from every other gap and from the words."""
    tier, seed, idx, nshards = args
    acc = Acc(seed=seed, sample_stride=29989)
    thorough = tier == "thorough"
    maxcol = 5 if thorough else 4
    i = 0
    for nwords in (2, 3, 4):
        maxlen = 2 * maxcol + 1 if nwords <= 3 else (6 if thorough else 4)
        gaps = GAPS if nwords <= 3 else GAPS[:2]
        for lens in itertools.product(range(1, maxlen + 1), repeat=nwords):
            for gs in itertools.product(gaps, repeat=nwords - 1):
                i += 1
                if i % nshards != idx:
                    continue
                spec = []
                for w, n in enumerate(lens):
                    spec.append(("abcd"[w] * n, WORD_ATTS[w]))
                    if w < nwords - 1:
                        spec.append((gs[w], GAP_ATTS[w]))
                spec = tuple(spec)
                text = "".join(t for t, _ in spec)
                f = C.build(spec)
                fc = C.cells(f)
                plain = [(c, ()) for c in text]
                for columns in range(1, maxcol + 3):
                    case = {"f": C.show_spec(spec), "columns": columns}
                    acc.case(True, key=("w", spec, columns), sample=case)
                    acc.transitions += 2
                    check(acc, f, fc, columns, case)
                    check(acc, text, plain, columns, {"text": text, "columns": columns, "as": "str"})
    return acc.export()


def shard_many_words(args):
    """5..9 words (lengths cycling through 1..7), gaps cycling through three kinds, columns up to 17."""
    tier, seed, idx = args
    acc = Acc(seed=seed)
    k = 0
    for nwords in (5, 6, 8, 9):
        for offset in range(0, 7):
            for gapshift in range(3):
                k += 1
                if k % 8 != idx:
                    continue
                spec = []
                for wi in range(nwords):
                    ln = 1 + (wi * 3 + offset) % 7
                    spec.append(("abcdefghi"[wi] * ln, WORD_ATTS[wi % 4]))
                    if wi < nwords - 1:
                        spec.append((GAPS[(wi + gapshift) % 3], GAP_ATTS[wi % 4]))
                spec = tuple(spec)
                f = C.build(spec)
                fc = C.cells(f)
                text = "".join(t for t, _ in spec)
                for columns in (1, 2, 3, 5, 7, 8, 9, 12, 16, 17):
                    case = {"f": C.show_spec(spec), "columns": columns}
                    acc.case(True, key=("mw", spec, columns), sample=case)
                    acc.transitions += 2
                    check(acc, f, fc, columns, case)
                    check(acc, text, [(c, ()) for c in text], columns, {"text": text, "columns": columns, "as": "str"})
    return acc.export()


def shard_scale(args):
    """Sizes far beyond small (cells.scale_specs: hundreds of words, words of hundreds of characters, hundreds of runs) at narrow,
    ordinary and very wide limits; as FmtStr and as plain str."""
    tier, seed, idx, nshards = args
    acc = Acc(seed=seed, sample_stride=4999)
    specs = C.scale_specs(tier == "thorough", shapes=("words", "runs7", "wide_word", "one", "unit_runs", "wide"))
    for si in range(idx, len(specs), nshards):
        spec = specs[si]
        f = C.build(spec)
        fc = C.spec_cells(spec)
        text = "".join(c for c, _ in fc)
        n = len(fc)
        snap = C.snapshot(f)
        shown = {"scale_value": {"characters": n, "runs": len(spec), "first_runs": C.show_spec(spec[:3])}}
        for columns in sorted({1, 2, 3, 7, 10, 20, 41, 79, 80, 81, 132, 200, 256, 257, 1000, 2500, max(1, n - 1), n, n + 1}):
            case = dict(shown, columns=columns)
            acc.case(True, key=("scale", si, columns), sample=case)
            acc.transitions += 2
            check(acc, f, fc, columns, case)
            if columns in (7, 80, 257):
                check(acc, text, [(c, ()) for c in text], columns, dict(case, **{"as": "str"}))
        if C.snapshot(f) != snap:
            acc.failure("C16:operand_changed", shown, "")
    return acc.export()


def shard_gaps_and_growth(args):
    """(a) 14..80 words (40..330 runs) separated by whitespace of 1..3 characters in which an EMPTY run of other formatting sits at the
    start, strictly inside, or at the end of the gap; (b) a growing log: the same limit, texts that extend the previous call's text -
    continuing its last run, or with the last run (or the whole single run) re-formatted, or shorter, or equal."""
    tier, seed, idx = args
    acc = Acc(seed=seed, sample_stride=997)
    A, B, E = (("fg", 31),), (("bg", 44),), (("bold", True), ("fg", 32))
    k = 0
    for nwords in (14, 21, 45, 80):
        for pattern in range(6):
            for wordlen in (1, 3):
                k += 1
                if k % 4 != idx:
                    continue
                spec = []
                for wi in range(nwords):
                    spec.append(("abcdefghij"[wi % 10] * (1 + (wi + wordlen) % (wordlen + 2)), A if wi % 2 else ()))
                    if wi == nwords - 1:
                        break
                    kind = (wi + pattern) % 6
                    if kind == 0:
                        spec += [(" ", B)]
                    elif kind == 1:
                        spec += [(" ", B), ("", E), (" ", B)]  # empty run strictly inside a uniform gap
                    elif kind == 2:
                        spec += [("", E), ("  ", B)]
                    elif kind == 3:
                        spec += [("  ", B), ("", E)]
                    elif kind == 4:
                        spec += [(" ", B), ("", ()), ("\t", B), ("", E), (" ", B)]
                    else:
                        spec += [(" ", B), (" ", A)]  # a gap that is not uniform
                spec = tuple(spec)
                f = C.build(spec)
                fc = C.cells(f)
                for columns in (3, 7, 12, 20, 40, 79, 200, 1000):
                    case = {"f": {"words": nwords, "runs": len(spec), "first_runs": C.show_spec(spec[:8])}, "columns": columns}
                    acc.case(True, key=("gaps", nwords, pattern, wordlen, columns), sample=case)
                    acc.transitions += 1
                    check(acc, f, fc, columns, case)
    # (a2) words much longer than a line containing zero-width joiners / variation selectors / combining marks / wide characters: with
    # every limit 1..13 each of them falls on every kind of cut offset (linesplit counts characters, whatever they are)
    for wi, word in enumerate(("ab\u200dcd\ufe0fe\ufe0ef" * 9, "\u200d" + "xy\u200d" * 30, "a\ufe0f" * 40, "\U0001f468\u200d\U0001f469\u200d\U0001f467" * 12, "e\u0301\u0300" * 30, "Ｅ漢" * 35)):
        k += 1
        if k % 4 != idx:
            continue
        for lead in ("", "w ", "two words "):
            for nruns in (1, 7):
                text = lead + word + " end"
                step_ = max(1, len(text) // nruns)
                spec = tuple((text[j : j + step_], (A, B, ())[(j // step_) % 3]) for j in range(0, len(text), step_))
                f = C.build(spec)
                fc = C.cells(f)
                for columns in range(1, 14):
                    case = {"long_word": {"kind": wi, "characters": len(word), "lead": lead, "runs": len(spec)}, "columns": columns}
                    acc.case(True, key=("zw", wi, lead, nruns, columns), sample=case)
                    acc.transitions += 1
                    check(acc, f, fc, columns, case)
    # equal-but-distinguishable attribute values on two gaps of one text (False / 0, 31 / 31.0), in both orders
    for g1, g2 in (((("bold", False),), (("bold", 0),)), ((("bold", 0),), (("bold", False),)), ((("fg", 31),), (("fg", 31.0),)), ((("fg", 31.0),), (("fg", 31),)), ((("underline", True),), (("underline", 1),))):
        spec = (("aa", ()), (" ", g1), ("bb", ()), (" ", g2), ("cc", ()), ("  ", g1), ("dd", ()))
        f = C.build(spec)
        fc = C.cells(f)
        for columns in (5, 8, 20):
            case = {"f": C.show_spec(spec), "columns": columns, "gap_values": [repr(dict(g1)), repr(dict(g2))]}
            acc.case(True, key=("gaptwin", repr(g1), repr(g2), columns), sample=case)
            acc.transitions += 1
            check(acc, f, fc, columns, case)
    # a plain str that carries SGR sequences (the terminal string of a formatted value) is formatted text, not words with escape bytes
    from curtsies.formatstring import fmtstr as _fmtstr

    for si_, spec in enumerate([C.scale_spec(40, "words"), C.scale_spec(90, "words"), (("red word", (("fg", 31),)), (" and ", ()), ("bold blue", (("bold", True), ("fg", 34)))), (("x", (("bg", 44),)), ("  ", (("bg", 44),)), ("yy zz", (("underline", True),)))]):
        k += 1
        if k % 4 != idx:
            continue
        f = C.build(spec)
        s_ = str(f)
        fc2 = C.cells(_fmtstr(s_))
        if fc2 != C.cells(f):
            continue
        for columns in (3, 7, 20, 200):
            case = {"text": s_[:80], "columns": columns, "as": "str holding the terminal string of a formatted value"}
            acc.case(True, key=("termstr", si_, columns), sample=case)
            acc.transitions += 1
            check(acc, s_, fc2, columns, case)
    # limits far beyond any text
    for columns in (2 ** 31 - 1, 2 ** 31, 2 ** 32 - 1, 2 ** 32, 2 ** 63, 2 ** 64 + 1, 10 ** 30):
        if idx != 0:
            break
        for spec in (C.scale_spec(40, "words"), (("one", ()),), ((" a  b ", (("fg", 31),)),)):
            f = C.build(spec)
            case = {"f": C.show_spec(spec[:3]), "columns": columns}
            acc.case(True, key=("hugecol", columns, len(spec)), sample=case)
            acc.transitions += 1
            check(acc, f, C.cells(f), columns, case)
    # (b) growing log
    for base_len in (40, 650, 1500):
        for shape in ("words", "one", "runs7"):
            k += 1
            if k % 4 != idx:
                continue
            for columns in (20, 80):
                spec = C.scale_spec(base_len, shape)
                for step in range(8):
                    kind = ("extend_same", "reformat_last", "extend_same", "extend_other", "same_again", "shorter", "reformat_last", "extend_same")[step]
                    last_t, last_a = spec[-1]
                    if kind == "extend_same":
                        spec = spec[:-1] + ((last_t + " more text %d" % step, last_a),)
                    elif kind == "reformat_last":
                        spec = spec[:-1] + ((last_t + " and on", (("fg", 34),) if last_a != (("fg", 34),) else (("bg", 45),)),)
                    elif kind == "extend_other":
                        spec = spec + ((" tail%d" % step, (("underline", True),)),)
                    elif kind == "shorter":
                        spec = spec[:-1] + ((last_t[: max(1, len(last_t) - 5)], last_a),)
                    f = C.build(spec)
                    fc = C.cells(f)
                    case = {"growing_log": {"start_characters": base_len, "shape": shape, "step": step, "change": kind, "characters": len(fc)}, "columns": columns}
                    acc.case(True, key=("grow", base_len, shape, columns, step), sample=case)
                    acc.transitions += 1
                    check(acc, f, fc, columns, case)
    return acc.export()


def shard_special(args):
    """(a) one very long word (thousands of pieces); (b) the list a call returns belongs to the caller: editing it must not change
    what an equal call returns later (function-level caches)."""
    tier, seed, idx = args
    from curtsies.formatstring import fmtstr, linesplit

    acc = Acc(seed=seed)
    if idx == 0:
        for n, columns in ((1500, 1), (4096, 2), (3001, 3), (1200, 7)):
            word = ("ab" * n)[:n]
            for value, label in ((word, "str"), (fmtstr("x ") + fmtstr(word, "red") + " y", "fmtstr")):
                fc = [(c, ()) for c in value] if isinstance(value, str) else C.cells(value)
                case = {"long_word_chars": n, "columns": columns, "as": label}
                acc.case(True, key=("huge", n, columns, label), sample=case)
                acc.transitions += 1
                check(acc, value, fc, columns, case)
    else:
        for text in ("aa bb cc", " ", "", "a\tb", "word"):
            for columns in (2, 5):
                for kind in ("str", "fmtstr"):
                    value = text if kind == "str" else fmtstr(text, "blue")
                    fc = [(c, ()) for c in text] if kind == "str" else C.cells(value)
                    case = {"text": text, "columns": columns, "as": kind, "op": "edit the returned list, call again"}
                    acc.case(True, key=("own", text, columns, kind), sample=case)
                    acc.transitions += 2
                    try:
                        first = linesplit(value, columns)
                        first.append(fmtstr("JUNK"))
                        if first[:-1]:
                            first[0] = fmtstr("CHANGED")
                    except Exception as ex:  # noqa
                        acc.failure("C16:raises:" + type(ex).__name__, case, repr(ex))
                        continue
                    value2 = text if kind == "str" else fmtstr(text, "blue")
                    check(acc, value2, fc, columns, case)
                    check(acc, value, fc, columns, case)
    return acc.export()


def shard_fresh_formatting(args):
    """Results must not depend on what was wrapped earlier in the same process (module-level caches keyed by formatting).  Each case
    uses a formatting that has never been seen before in this process - so the order 'mixed gap first, then uniform gap' (and the reverse)
    is under the harness's control: bg colours 40..47 x style pairs give fresh attribute sets."""
    tier, seed, idx = args
    acc = Acc(seed=seed)
    fresh = []
    for bg in range(40, 48):
        for st in C.STYLE_NAMES:
            fresh.append((("bg", bg), (st, True)))
    for k in range(idx, len(fresh), 4):
        X = tuple(sorted(fresh[k]))
        Y = (("fg", 35),)
        for order in ("mixed_first", "uniform_first"):
            XX = tuple(sorted(X + ((("dark", True),) if order == "uniform_first" else (("italic", True),)))) if True else X
            mixed = (("aa", ()), (" ", XX), (" ", Y), ("bb", ()), (" ", XX), ("c", ()))       # first gap starts with XX and changes inside
            uniform = (("aa", ()), ("  ", XX), ("bb", ()), (" ", XX), ("c", ()))               # gaps uniformly XX
            seq = (mixed, uniform) if order == "mixed_first" else (uniform, mixed)
            for spec in seq:
                f = C.build(spec)
                fc = C.cells(f)
                for columns in (5, 8, 9):
                    case = {"f": C.show_spec(spec), "columns": columns, "order": order}
                    acc.case(True, key=("fresh", k, order, spec, columns), sample=case)
                    acc.transitions += 1
                    check(acc, f, fc, columns, case)
    return acc.export()


def run(ctx):
    rep = Report()
    repeat.run_into(ctx, rep, "C16")
    for d in ctx.pmap(shard_fresh_formatting, [(ctx.tier, ctx.seed, i) for i in range(4)]):
        rep.merge(d, "fresh_formatting_order")
    for d in ctx.pmap(shard_many_words, [(ctx.tier, ctx.seed, i) for i in range(8)]):
        rep.merge(d, "many_words")
    for d in ctx.pmap(shard_scale, [(ctx.tier, ctx.seed, i, 32) for i in range(32)]):
        rep.merge(d, "scale_sweep")
    for d in ctx.pmap(shard_gaps_and_growth, [(ctx.tier, ctx.seed, i) for i in range(4)]):
        rep.merge(d, "empty_runs_in_gaps_and_growing_logs")
    for d in ctx.pmap(shard_special, [(ctx.tier, ctx.seed, i) for i in range(2)]):
        rep.merge(d, "huge_word_and_result_ownership")
    ns = 256 if ctx.thorough else 64
    for d in ctx.pmap(shard, [(ctx.tier, ctx.seed, i, ns) for i in range(ns)]):
        rep.merge(d, "exhaustive_short_strings")
    for d in ctx.pmap(shard_words, [(ctx.tier, ctx.seed, i, 64) for i in range(64)]):
        rep.merge(d, "word_structured")
    rep.validated = rep.n
    full, two, maxcol = (5, 7, 6) if ctx.thorough else (4, 5, 4)
    rep.rule = (
        "every string over {a,b,space,tab,newline} of length <= %d as str and cut into <= 3 runs (empty runs included, P3), of length <= %d as "
        "str and cut into <= 2 non-empty runs (P2); columns 1..%d; plus the word-structured family: 2-4 words of every length up to 2*columns+1 with "
        "three kinds of gap, every gap and word formatted differently, as FmtStr and as str. Distinct by construction; non-trivial = the text has a word; states = "
        "distinct results" % (full, two, maxcol)
    )
    rep.bounds = {"full_cut_len": full, "max_len": two, "max_columns": maxcol}
    rep.assumptions = ["length is len(), not display width (narrow characters only)", "whitespace = str.isspace()"]
    return rep


def replay(ctx, case):
    acc = Acc()
    if "text" in case:
        check(acc, case["text"], [(c, ()) for c in case["text"]], case["columns"], case)
    else:
        spec = tuple((t, tuple(sorted(a.items()))) for t, a in case["f"])
        f = C.build(spec)
        check(acc, f, C.cells(f), case["columns"], case)
    return [(s, e["cases"][0]["message"]) for s, e in acc.fail.items()]
