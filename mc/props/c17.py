"""C17 - fmtstr accepts any string: never raises, never loses ordinary text (DESIGN.md 4/C17).

Space  : every string of length <= N over the alphabet {a, newline, ESC, U+009B, '[', '1', ';', 'm', 'A', space, '?'}
         (well-formed, unsupported, truncated and nested escape sequences in every position) + real-world samples.
Oracle : an independent scanner marks the *escape extents* of s (introducer, following run of 0x20-0x3F bytes, one final byte
         0x40-0x7E if present; ESC + one other character for two-character escapes).
         (1) fmtstr(s) and FmtStr.from_str(s) do not raise and agree;
         (2) no ESC and no U+009B in s  =>  text == s and every character unformatted;
         (3) the result's text is s with characters deleted only inside escape extents (alignment DP) - nothing added,
             nothing reordered, every character outside a sequence kept;
         (4) if every introducer starts an ordinary numeric CSI  ESC [ (d+(;d+)*)? final-letter  then text == s minus exactly those.
"""
import itertools
import re

from mc import cells as C
from mc import repeat
from mc.runner import Acc, Report

LEVEL = "model_checking"

SIGMA = ("a", "\n", "\x1b", "\x9b", "[", "1", ";", "m", "A", " ", "?")

SAMPLES = [
    "\x1b[m", "\x1b[0m", "\x1b[1;31mbold red\x1b[0m", "\x1b[38;5;196mx\x1b[0m", "\x1b[38;2;1;2;3mx\x1b[m", "\x1b[2J\x1b[1;1H",
    "\x1b[2Jabc", "\x1b]0;title\x07rest", "\x1b[200~pasted\x1b[201~", "\x1b[?25l\x1b[?25h", "\x1b[?1049h", "\x1b[K", "\x1b[1K\x1b[J",
    "\x1b[01;34mdir\x1b[0m\n\x1b[01;32mexe\x1b[0m\n", "\x1b[39;49;00m", "\x1b[90mgrey\x1b[39m", "\x1b[1m\x1b[31ma\x1b[0m\nb",
    "def \x1b[34mf\x1b[39m():\n    \x1b[32mpass\x1b[39m\n", "\x1b[6n", "\x1b[12;40R", "\x1b7\x1b8", "\x1bM", "\x1bc", "\x1b(B",
    "\x1b[1;5A", "\x1b[A\x1b[B", "\x1bOA", "a\x1bb", "\x1b", "\x1b[", "\x1b[1", "\x1b[1;", "\x9b1m", "\x9b31mred\x9b39m",
    "\x1b[31", "\x1b[31;", "\x1b[;m", "\x1b[1;;2m", "\x1b[ q", "\x1b[5 q", "\x1b[>0c", "\x1b[=1c", "\x1b[!p", "\x1b[31m\x1b[Zx",
    "\x1b[38;5m", "\x1b[38;2;1;2m", "\x1b[48;5m", "\x1b[1;48;2;10;20m", "\x1b[38m", "\x1b[38;5;m", "\x1b[38;5", "\x1b[48;2m", "\x1b[38;2;255;0;0;1m",
    "\x1b[38;5;1;38;5m", "a\x1b[38;5mb", "\x1b[0;38m", "\x1b[90m" + "x\x1b[31my\x1b[0m" * 20, "\x1b[10m" + "\x1b[1mA" * 40 + "\x1b[m", "\x1b[95mz" + "\x1b[2K" * 30,
    "\x1b[" + "1" * 4300 + "m", "\x1b[" + "7" * 4301 + "mx", "a\x1b[1;" + "9" * 5000 + "Hb", "\x9b" + "3" * 4400 + "m", "\x1b[31m\x1b[" + "0" * 6000 + "1mz",
    "tab\there", "\r\n", "é\x1b[1mü", "Ｅ\x1b[31mＥ", "[1m", "a[31mb", "\x1b[31mx[1my\x1b[39m", "\x1b[4;3;1mhi", "\x1b[999m", "\x1b[21m", "\x1b[22m",
]

NUMERIC_CSI = re.compile(r"\x1b\[(?:\d+(?:;\d+)*)?[A-Za-z]")


def extents(s):
    """Boolean list: position i belongs to an escape extent."""
    n = len(s)
    inx = [False] * n
    i = 0
    while i < n:
        c = s[i]
        if c == "\x1b" or c == "\x9b":
            j = i + 1
            if c == "\x1b":
                if j < n and s[j] == "[":
                    j += 1
                elif j < n and s[j] not in ("\x1b", "\x9b"):
                    # two-character escape: ESC + one character (intermediates/finals of nF sequences are treated leniently below)
                    k = j
                    while k < n and "\x20" <= s[k] <= "\x2f":
                        k += 1
                    if k < n and "\x30" <= s[k] <= "\x7e":
                        k += 1
                    elif k == j:
                        k = j + 1 if not ("\x00" <= s[j] < "\x20") else j
                    for t in range(i, k):
                        inx[t] = True
                    i = max(k, i + 1)
                    continue
                else:
                    inx[i] = True
                    i += 1
                    continue
            k = j
            while k < n and "\x20" <= s[k] <= "\x3f":
                k += 1
            if k < n and "\x40" <= s[k] <= "\x7e":
                k += 1
            for t in range(i, k):
                inx[t] = True
            i = k
        else:
            i += 1
    return inx


def deletion_only(s, inx, r):
    """r obtainable from s by deleting only positions flagged in inx?"""
    n, m = len(s), len(r)
    # reach[j] = set of i... small strings: simple DP over (i, j)
    cur = {0}
    for i in range(n):
        nxt = set()
        for j in cur:
            if inx[i]:
                nxt.add(j)
            if j < m and r[j] == s[i]:
                nxt.add(j + 1)
        cur = nxt
        if not cur:
            return False
    return m in cur


def only_numeric_csi(s):
    """Every introducer of s starts an ordinary numeric CSI sequence; returns s without them, else None."""
    out = []
    i = 0
    while i < len(s):
        c = s[i]
        if c == "\x9b":
            return None
        if c == "\x1b":
            m = NUMERIC_CSI.match(s, i)
            if not m:
                return None
            i = m.end()
        else:
            out.append(c)
            i += 1
    return "".join(out)


def check(acc, s, case):
    from curtsies.formatstring import FmtStr, fmtstr

    try:
        f = fmtstr(s)
        g = FmtStr.from_str(s)
    except Exception as ex:  # noqa
        acc.failure("C17:raises:" + type(ex).__name__, case, "%r for %r" % (ex, s))
        return
    text = f.s
    acc.state(hash(text))
    if C.cells(f) != C.cells(g):
        acc.failure("C17:fmtstr_vs_from_str", case, "%r vs %r" % (f, g))
    if "\x1b" not in s and "\x9b" not in s:
        if text != s or any(a for _, a in C.cells(f)):
            acc.failure("C17:plain_text_changed", case, "fmtstr(%r) -> %r" % (s, f))
        return
    inx = extents(s)
    if not deletion_only(s, inx, text):
        acc.failure("C17:ordinary_text_lost_or_added", case, "fmtstr(%r).s == %r" % (s, text))
        return
    want = only_numeric_csi(s)
    if want is not None:
        acc.add("numeric_csi_only_cases")
        if text != want:
            acc.failure("C17:numeric_csi_not_removed_exactly", case, "fmtstr(%r).s == %r, expected %r" % (s, text, want))


def shard(args):
    tier, seed, prefix = args
    acc = Acc(seed=seed)
    maxlen = 6 if tier == "thorough" else 5
    for n in range(0, maxlen - len(prefix) + 1):
        for tail in itertools.product(SIGMA, repeat=n):
            s = prefix + "".join(tail)
            nontriv = ("\x1b" in s or "\x9b" in s) and len(s) > 1
            acc.case(nontriv, key=s, sample=lambda: {"s": s})
            check(acc, s, {"s": s})
    return acc.export()


TOKENS2 = ("38", "48", "5", "2", "1", "9", ";", "m", "\x1b[", "a")


def shard_tokens(args):
    """Second alphabet: token strings around the extended-colour forms (38;5;n / 48;2;r;g;b), truncated in every way."""
    tier, seed, first = args
    acc = Acc(seed=seed)
    maxn = 6 if tier == "thorough" else 5
    for n in range(0, maxn):
        for tail in itertools.product(TOKENS2, repeat=n):
            s = "\x1b[" + TOKENS2[first] + "".join(tail)
            acc.case(True, key=("t2", s), sample=lambda: {"s": s})
            check(acc, s, {"s": s})
            s2 = "x" + s + "y\nz"
            acc.case(True, key=("t2", s2))
            check(acc, s2, {"s": s2})
    return acc.export()


TOKENS3 = ("\x1b", "\x1b[", "\x1b[3", "\x1bM", "\x1b7", "\x1b[99m", "\x1b[31m", "H", "ello", "abc ", "\x1b[2K", "\x9b", "m", "\x1b]0;t\x07")


def shard_tokens3(args):
    """Third alphabet: whole tokens - cut-off introducers, two-byte escapes, supported / unsupported SGR, other CSI, OSC, text that reads
    like the tail of a sequence - in every order."""
    tier, seed, first = args
    acc = Acc(seed=seed)
    maxn = 5 if tier == "thorough" else 4
    for n in range(0, maxn):
        for tail in itertools.product(TOKENS3, repeat=n):
            s = TOKENS3[first] + "".join(tail)
            acc.case(True, key=("t3", s), sample=lambda: {"s": s})
            check(acc, s, {"s": s})
    return acc.export()


COLOUR_VALUES = (0, 1, 7, 8, 127, 128, 255, 256, 511, 512, 1023, 1024, 65535, 65536, 99999999)


def shard_colour_values(args):
    """Extended-colour parameters far outside 0..255 in every position of 38;2;r;g;b / 48;2;r;g;b / 38;5;n / 48;5;n."""
    tier, seed, idx = args
    acc = Acc(seed=seed)
    k = 0
    for lead in ("38", "48", "1;38", "0;48"):
        for r in COLOUR_VALUES:
            for g in COLOUR_VALUES:
                for b in COLOUR_VALUES:
                    k += 1
                    if k % 16 != idx:
                        continue
                    s = "x\x1b[%s;2;%d;%d;%dmy\x1b[0mz" % (lead, r, g, b)
                    acc.case(True, key=("cv", s), sample=lambda: {"s": s})
                    check(acc, s, {"s": s})
        for n_ in list(range(0, 300)) + list(COLOUR_VALUES):
            k += 1
            if k % 16 != idx:
                continue
            s = "x\x1b[%s;5;%dmy\x1b[mz" % (lead, n_)
            acc.case(True, key=("cv", s), sample=lambda: {"s": s})
            check(acc, s, {"s": s})
    return acc.export()


def shard_many_params(args):
    """One numeric CSI sequence with 1..120 parameters (supported SGR codes, unsupported codes, cursor movement, erasing; 7-bit and 8-bit
    introducer) between two pieces of text: removed exactly, whatever the count; and lone surrogates / other unusual ordinary
    characters around sequences."""
    tier, seed, idx = args
    acc = Acc(seed=seed)
    k = 0
    for n in list(range(1, 121)) + [200, 500, 1000]:
        for codes, final in (((1, 4, 31, 44), "m"), ((99, 21, 58), "m"), ((1, 2), "H"), ((2,), "K"), ((0,), "m"), ((38, 5, 1), "m")):
            for intro in ("\x1b[", "\x9b"):
                k += 1
                if k % 8 != idx:
                    continue
                ps = ";".join(str(codes[j % len(codes)]) for j in range(n))
                s = "ab" + intro + ps + final + "cd\nef"
                case = {"s": s if n <= 12 else None, "parameters": n, "codes": list(codes), "final": final, "introducer": intro}
                acc.case(True, key=("np", n, codes, final, intro), sample=case)
                check(acc, s, dict(case, s=s if n <= 40 else s[:60] + "..."))
    if idx == 0:
        for t in ("\ud800", "a\udfffb", "\x1b[31m\ud800\x1b[0m", "x\udc80\x1b[1my", "\ud83d\x1b[4m\ude00", "\x1b[32m\x00\x7f\x80\x9c\x9d\xa0\xad\x1b[m", "\u2028\x1b[1m\u2029\ufeff\ufffe\U0010ffff"):
            acc.case(True, key=("odd", t), sample={"s": t})
            check(acc, t, {"s": t})
    return acc.export()


def long_offsets(tier):
    """Every offset up to 2 600 (thorough 8 000), then the neighbourhood (-3..+2) of every multiple of 500 up to 70 000."""
    top = 8000 if tier == "thorough" else 2600
    offs = set(range(0, top))
    for m in range(500, 70001, 500):
        offs.update(range(m - 3, m + 3))
    return sorted(offs)


def shard_long(args):
    """A sequence at a swept offset of a long newline-free text (chunked / windowed parsing meets it at some offset)."""
    tier, seed, idx, nshards = args
    acc = Acc(seed=seed, sample_stride=997)
    seqs = ("\x1b[31m", "\x1b[99m", "\x1b[2K", "\x1b[1;31;44m")
    for oi, off in enumerate(long_offsets(tier)):
        if oi % nshards != idx:
            continue
        seq = seqs[oi % len(seqs)] if off < 8000 else None
        for sq in ([seq] if seq else seqs[:2]):
            s = "a" * off + sq + "b" * 20 + "\x1b[0m" + "c"
            case = {"long_text": True, "lead": off, "sequence": sq}
            acc.case(True, key=("long", off, sq), sample=case)
            check(acc, s, case)
    return acc.export()


def run(ctx):
    rep = Report()
    for d in ctx.pmap(shard_long, [(ctx.tier, ctx.seed, i, 48) for i in range(48)]):
        rep.merge(d, "long_text_offset_sweep")
    for d in ctx.pmap(shard_many_params, [(ctx.tier, ctx.seed, i) for i in range(8)]):
        rep.merge(d, "sequences_with_1_to_1000_parameters_and_odd_characters")
    for d in ctx.pmap(shard_colour_values, [(ctx.tier, ctx.seed, i) for i in range(16)]):
        rep.merge(d, "extended_colour_values")
    for d in ctx.pmap(shard_tokens3, [(ctx.tier, ctx.seed, i) for i in range(len(TOKENS3))]):
        rep.merge(d, "whole_token_alphabet")
    repeat.run_into(ctx, rep, "C17")
    for d in ctx.pmap(shard_tokens, [(ctx.tier, ctx.seed, i) for i in range(len(TOKENS2))]):
        rep.merge(d, "extended_colour_tokens")
    acc = Acc(seed=ctx.seed)
    for s in [""] + list(SIGMA):  # lengths 0 and 1 (shards below start with 2-character prefixes)
        acc.case(False, key=s)
        check(acc, s, {"s": s})
    for s in SAMPLES:
        acc.case(True, key=("sample", s), sample={"s": s})
        check(acc, s, {"s": s})
    rep.merge(acc, "samples_and_short")
    prefixes = ["".join(p) for p in itertools.product(SIGMA, repeat=2)]
    for d in ctx.pmap(shard, [(ctx.tier, ctx.seed, p) for p in prefixes], chunksize=2):
        rep.merge(d, "alphabet")
    rep.validated = rep.n
    maxlen = 6 if ctx.thorough else 5
    rep.rule = (
        "every string of length <= %d over the 11-symbol alphabet %r plus %d real-world samples; distinct by construction; non-trivial = "
        "contains an ESC or U+009B and is longer than 1; states = distinct result texts" % (maxlen, list(SIGMA), len(SAMPLES))
    )
    rep.bounds = {"max_len": maxlen, "alphabet": len(SIGMA)}
    rep.assumptions = ["escape extents per ECMA-48: introducer + bytes 0x20-0x3F + one final 0x40-0x7E; kept-or-deleted inside an extent is not constrained"]
    return rep


def replay(ctx, case):
    acc = Acc()
    if case.get("long_text"):
        case = dict(case, s="a" * case["lead"] + case["sequence"] + "b" * 20 + "\x1b[0m" + "c")
    check(acc, case["s"], case)
    return [(s, e["cases"][0]["message"]) for s, e in acc.fail.items()]
