"""C08 - Input returns every byte and triggered event exactly once, in order (DESIGN.md 4/C08).

Stateless, deviation-bounded exploration of executions of the real Input under a virtual kernel (mc/vk.py).
A scenario = configuration (paste_threshold, sigint_event) + a script interleaving requests (timeouts 0 / 5.0 / None) with environment
events (byte bursts, unget_bytes, event_trigger / threadsafe_event_trigger / scheduled_event_trigger callbacks, SIGINT).  The default
execution delivers every environment event where the script puts it (between requests, or - when a request blocks with nothing ready -
inside the blocked select).  A *deviation* (cost 1) delivers the next environment event early, at any kernel call made during a request,
lets a thread-safe callback's os.write land later than its append, or lets an event land inside a timed wait.  All executions with at most
d deviations are enumerated.  Oracle: a reference queue model updated by the same environment events (see check_* below).
"""
import itertools

from mc import vk
from mc.runner import Acc, Report

LEVEL = "model_checking"
T0 = 1000.0


class Stream:
    encoding = "utf-8"

    def __init__(self, fd=0):
        self.fd = fd

    def fileno(self):
        return self.fd


class Model:
    """Reference model of what is pending."""

    def __init__(self):
        self.ref_bytes = bytearray()  # everything that has arrived, in the order it must come out
        self.fd_read = 0  # how many reference bytes have been handed to the library (os.read + unget)
        self.returned = bytearray()
        self.plain = []  # undelivered plain event tags, in trigger order
        self.ts = []
        self.sched = []  # (when, tag)
        self.sigints = 0
        self.delivered_events = []
        self.burst_sizes = []
        self.reads = []  # sizes of tty reads during the current request
        self.request_no = 0
        self.ts_completed = 0
        self.ts_marks = []  # (request number, selects completed) at the moment a thread-safe callback finished

    def arrived(self, data):
        self.ref_bytes.extend(data)

    def unget(self, data):
        # bytes pushed back by the program come out after everything already read, before what is still in the kernel buffer
        self.ref_bytes[self.fd_read:self.fd_read] = data
        self.fd_read += len(data)

    def pending_bytes(self):
        return len(self.ref_bytes) - len(self.returned)


class SteppedCall:
    """Runs a thread-safe trigger callback in a real second thread under sys.settrace, handing control back and forth with a baton,
    so that the callback can be *preempted between two of its source lines* (the explorer decides where; at most once per call).
    While the callback thread runs the main thread waits, and vice versa: there is never real parallelism."""

    def __init__(self, fn, kwargs, chooser, label):
        import threading

        self.fn, self.kwargs, self.chooser, self.label = fn, kwargs, chooser, label
        self.code = fn.__code__
        self.to_main = threading.Event()
        self.to_thread = threading.Event()
        self.done = False
        self.paused = False
        self.preempted_once = False
        self.error = None
        self.lines = 0
        self.thread = threading.Thread(target=self._run, daemon=True)

    def _run(self):
        import sys

        def local(frame, event, arg):
            if event == "line" and not self.preempted_once:
                self.lines += 1
                c = self.chooser.choose(["callback_continues", "callback_preempted_before_line_%d" % self.lines], [0, 1])
                if c == 1:
                    self.preempted_once = True
                    self.paused = True
                    self.to_main.set()
                    self.to_thread.wait()
                    self.to_thread.clear()
                    self.paused = False
            return local

        def tracer(frame, event, arg):
            if event == "call" and frame.f_code is self.code:
                return local
            return None

        sys.settrace(tracer)
        try:
            self.fn(**self.kwargs)
        except BaseException as ex:  # noqa
            self.error = ex
        finally:
            sys.settrace(None)
            self.done = True
            self.to_main.set()

    def start(self):
        self.thread.start()
        self.to_main.wait()
        self.to_main.clear()

    def resume(self):
        self.to_thread.set()
        self.to_main.wait()
        self.to_main.clear()
        if self.done:
            self.thread.join()


class Env:
    def __init__(self, script, model):
        self.script = list(script)
        self.done = [False] * len(script)
        self.model = model
        self.deferred = []
        self.in_threadsafe_callback = False
        self.inp = None
        self.cbs = {}
        self.pc = 0
        self.callback_failures = []
        self.paused_calls = []
        self.chooser = None
        # the callback runs in a stepped thread and can be preempted before any of its lines (including the os.write line), which
        # subsumes "the write lands later than the append"
        self.allow_write_deferral = False
        self.ts_class = None
        self.delivering = 0
        self.registered_mark = None  # (request number, selects completed) when a further trigger was registered

    def bytes_read(self, data):
        self.model.fd_read += len(data)
        self.model.reads.append(len(data))

    def _next_env(self):
        for i in range(self.pc, len(self.script)):
            it = self.script[i]
            if it[0] == "req" or self.done[i]:
                continue
            if it[0] in ("unget", "reenter"):
                return None  # a program action, not an asynchronous event: nothing behind it may overtake it
            return i
        return None

    def enabled_early(self):
        out = [("deferred_write", ("deferred", j)) for j in range(len(self.deferred))][:1]
        out += [("deferred_write", ("resume", j)) for j in range(len(self.paused_calls))][:1]
        i = self._next_env()
        if i is not None:
            out.append((self.script[i][0], ("script", i)))
        return out

    enabled_blocked = enabled_early

    def defer_write(self, rfd, data):
        self.deferred.append((rfd, data))

    def deliver(self, ev, kernel, during=None):
        """Runs one environment event. A trigger callback that raises is the library's failure (it runs in 'another thread'),
        never an exception of the main thread's request."""
        self.delivering += 1
        try:
            self._deliver(ev, kernel, during)
        except (vk.HarnessError, vk.Deadlock, KeyboardInterrupt):
            raise
        except Exception as ex:  # noqa
            self.callback_failures.append(("C08:trigger_callback_raises:" + type(ex).__name__, "%r while delivering %r" % (ex, ev)))
        finally:
            self.delivering -= 1

    def _deliver(self, ev, kernel, during=None):
        if ev[0] == "deferred":
            rfd, data = self.deferred.pop(ev[1])
            kernel.raw_write(rfd, data)
            return
        if ev[0] == "resume":
            call = self.paused_calls.pop(ev[1])
            self.in_threadsafe_callback = True
            try:
                call.resume()
            finally:
                self.in_threadsafe_callback = False
            if call.paused:
                raise vk.HarnessError("callback paused twice")
            if call.error is not None:
                raise call.error
            self.model.ts_completed += 1
            self.model.ts_marks.append((call.label, self.model.request_no if kernel.in_request else -1, kernel.selects_done))
            return
        i = ev[1]
        it = self.script[i]
        self.done[i] = True
        m = self.model
        kind = it[0]
        if kind == "bytes":
            kernel.fds[kernel.TTY]["buf"].extend(it[1])
            m.arrived(it[1])
            m.burst_sizes.append(len(it[1]))
        elif kind == "unget":
            self.inp.unget_bytes(it[1])
            m.unget(it[1])
        elif kind == "event":
            m.plain.append(it[1])
            self.cbs["plain"](tag=it[1])
        elif kind == "ts":
            # one other thread fires the callbacks: its earlier call finishes before its next one starts
            while self.paused_calls:
                self._deliver(("resume", 0), kernel)
            m.ts.append(it[1])
            self.in_threadsafe_callback = True
            try:
                call = SteppedCall(self.cbs["ts"], {"tag": it[1]}, self.chooser, it[1])
                call.start()
            finally:
                self.in_threadsafe_callback = False
            if call.paused:
                self.paused_calls.append(call)  # the other thread was preempted inside its callback
            else:
                if call.error is not None:
                    raise call.error
                m.ts_completed += 1
                m.ts_marks.append((it[1], m.request_no if kernel.in_request else -1, kernel.selects_done))
        elif kind == "sched":
            # remembered with the moment it was scheduled: (request number, selects completed) - an event scheduled after the
            # request's last wait has returned races with the request's decision and is exempt from the ordering clause
            m.sched.append((it[2], it[1], (m.request_no if kernel.in_request else -1, kernel.selects_done)))
            self.cbs["sched"](it[2])
        elif kind == "sched2":
            # a second, separately created scheduled-event trigger (its own closure)
            m.sched.append((it[2], it[1], (m.request_no if kernel.in_request else -1, kernel.selects_done)))
            self.cbs["sched2"](it[2])
        elif kind == "ts_register":
            # another thread (or a signal handler) registers a further thread-safe trigger while the program runs
            self.cbs["ts_new"] = self.inp.threadsafe_event_trigger(self.ts_class)
            self.registered_mark = (m.request_no if kernel.in_request else -1, kernel.selects_done)
        elif kind == "ts_fire_new":
            while self.paused_calls:
                self._deliver(("resume", 0), kernel)
            m.ts.append(it[1])
            self.in_threadsafe_callback = True
            try:
                call = SteppedCall(self.cbs["ts_new"], {"tag": it[1]}, self.chooser, it[1])
                call.start()
            finally:
                self.in_threadsafe_callback = False
            if call.paused:
                self.paused_calls.append(call)
            else:
                if call.error is not None:
                    raise call.error
                m.ts_completed += 1
                m.ts_marks.append((it[1], m.request_no if kernel.in_request else -1, kernel.selects_done))
        elif kind == "sigint":
            m.sigints += 1
            kernel.deliver_sigint()
        elif kind == "sigwinch":
            kernel.deliver_signal(28)
        else:
            raise vk.HarnessError("unknown event %r" % (it,))


def make_events():
    from curtsies import events

    class Tag(events.Event):
        def __init__(self, tag):
            self.tag = tag

        def __repr__(self):
            return "<Tag %s>" % self.tag

    class TsTag(Tag):
        def __bool__(self):
            # an event object may well be falsy (a container-like event that is empty, say): tags starting with "f" are
            return not str(self.tag).startswith("f")

        def __len__(self):
            return 0 if str(self.tag).startswith("f") else 1

    class Sched(events.ScheduledEvent):
        def __repr__(self):
            return "<Sched %r>" % self.when

    return Tag, TsTag, Sched


_EV = None


def multibyte_split(model, inp):
    """Did a read / arrival boundary fall inside a multi-byte character (or a keypress the decoder cannot finish)?"""
    data = bytes(model.ref_bytes[: model.fd_read])
    # the bytes handed to the library so far end inside a UTF-8 character
    for k in (1, 2, 3):
        if len(data) >= k:
            b = data[-k]
            if b >= 0xC0:
                need = 2 if b < 0xE0 else 3 if b < 0xF0 else 4
                return k < need
            if b < 0x80:
                return False
    return False


def run_scenario(scn, chooser):
    """One execution. Returns (observations, failures[(signature, message)], meta)."""
    global _EV
    import curtsies.input as ci
    from curtsies import events

    if _EV is None:
        _EV = make_events()
    Tag, TsTag, Sched = _EV
    model = Model()
    env = Env(scn["script"], model)
    env.chooser = chooser
    low = bool(scn.get("low_fds"))
    kernel = vk.Kernel(chooser, env, tty_fd=7 if low else 0, lowest_free=low)
    if scn.get("winch_handler"):
        kernel.handlers[28] = lambda signum, frame: None  # the program has its own SIGWINCH handler
    kernel.max_selects = scn.get("max_selects", 200)
    vk.install(kernel)
    fails = []
    obs = []
    try:
        inp = ci.Input(in_stream=Stream(kernel.TTY), keynames="bytes", paste_threshold=scn["paste_threshold"], sigint_event=scn["sigint_event"], disable_terminal_start_stop=scn.get("dtss", False))
        env.inp = inp
        if scn.get("typeahead"):
            # typed before the program got as far as entering the context
            kernel.raw_write(kernel.TTY, scn["typeahead"])
            model.arrived(scn["typeahead"])
        inp.__enter__()
        env.cbs = {"plain": inp.event_trigger(Tag), "ts": inp.threadsafe_event_trigger(TsTag), "sched": inp.scheduled_event_trigger(Sched), "sched2": inp.scheduled_event_trigger(Sched)}
        env.ts_class = TsTag
        keys_out = []

        def request(timeout, phase):
            m = model
            m.reads = []
            m.request_no += 1
            start = kernel.clock
            # a thread-safe event is deliverable once its callback has appended it (the callback may be preempted before that)
            deliverable = bool(m.plain or inp.queued_interrupting_events or m.sigints or m.pending_bytes() or any(x[0] < start for x in m.sched))
            sched_pending_start = bool(m.sched)
            kernel.in_request = True
            try:
                r = inp.send(timeout)
            except vk.Deadlock:
                kernel.in_request = False
                late = env.registered_mark is not None and env.registered_mark == (m.request_no, kernel.selects_done)
                pend_ts = [t_ for t_ in m.ts if not (late and str(t_).startswith("n"))]
                if pend_ts or m.sigints or m.pending_bytes():
                    fails.append(("C08:lost_wakeup_blocked_forever_with_something_pending", "blocked forever; pending ts=%r sigints=%d bytes=%d" % (m.ts, m.sigints, m.pending_bytes())))
                obs.append("blocked_forever")
                return "stop"
            except vk.HarnessError:
                raise
            except KeyboardInterrupt:
                kernel.in_request = False
                fails.append(("C08:send_raises:KeyboardInterrupt", "KeyboardInterrupt escaped send although sigint_event=%r" % scn["sigint_event"]))
                return "stop"
            except Exception as ex:  # noqa
                kernel.in_request = False
                sig = "C08:send_raises:" + type(ex).__name__
                if isinstance(ex, UnicodeDecodeError) and ex.start >= 1 and bytes(ex.object[: ex.start]) in ci.events.KEYMAP_PREFIXES and ex.object[ex.start] >= 0xC2:
                    sig = "C08:send_raises:UnicodeDecodeError:table_prefix_then_multibyte_character"
                if isinstance(ex, ValueError) and "identify key sequence" in str(ex) and multibyte_split(m, inp):
                    sig = "C08:send_raises:ValueError:multibyte_character_split_by_a_read_boundary"
                fails.append((sig, repr(ex)))
                obs.append("exception:" + type(ex).__name__)
                return "stop"
            kernel.in_request = False
            end = kernel.clock
            th_ = scn["paste_threshold"]
            if th_ is not None and m.reads and max(m.reads) > th_ and m.reads[0] > th_ and not isinstance(r, events.PasteEvent):
                # whatever the request returns instead, the burst it has just read can no longer come back as one paste event
                fails.append(("C08:burst_over_threshold_not_a_paste_event", "the request read %r bytes (> %d) from the terminal and returned %r" % (m.reads, th_, r)))
            # ---- classify and check ---------------------------------------------------------------------
            if r is None:
                obs.append("None")
                if deliverable:
                    fails.append(("C08:none_although_something_was_deliverable", "request(%r) returned None; at its start plain=%r ts=%r sigints=%d bytes=%d sched=%r now=%.6f" % (timeout, m.plain, m.ts, m.sigints, m.pending_bytes(), m.sched, start)))
                elif timeout is None:
                    fails.append(("C08:none_from_untimed_request", "send(None) returned None"))
                elif not sched_pending_start and not m.sched and end - start < timeout - 1e-4:
                    fails.append(("C08:none_before_timeout", "request(%r) returned None after %.6f s" % (timeout, end - start)))
                elif inp.queued_interrupting_events and not env.paused_calls and any(
                    tg in m.ts and rn == m.request_no and sd < kernel.selects_done
                    # an event of a trigger that was registered while this very wait was already in progress cannot wake it
                    and not (str(tg).startswith("n") and env.registered_mark is not None and env.registered_mark[0] == m.request_no and env.registered_mark[1] >= sd)
                    for tg, rn, sd in m.ts_marks
                ):
                    fails.append(("C08:request_slept_through_a_completed_threadsafe_callback", "request(%r) returned None although a thread-safe callback completed (event appended, wake-up due) before its last wait returned; queue %r" % (timeout, inp.queued_interrupting_events)))
                return None
            if isinstance(r, bytes):
                obs.append(("key", r))
                keys_out.append(r)
                want = bytes(m.ref_bytes[len(m.returned) : len(m.returned) + len(r)])
                if want != r:
                    fails.append(("C08:keypress_out_of_order_or_not_pending", "returned %r, next pending bytes are %r" % (r, bytes(m.ref_bytes[len(m.returned) :][:12]))))
                    return "stop"
                m.returned.extend(r)
                th = scn["paste_threshold"]
                if th is not None and m.reads and m.reads[0] > th:
                    fails.append(("C08:burst_over_threshold_not_a_paste_event", "a read of %d bytes (> %d) came back as a plain keypress %r" % (m.reads[0], th, r)))
                return r
            if isinstance(r, events.PasteEvent):
                keys_out.extend(r.events)
                data = b"".join(r.events)
                obs.append(("paste", tuple(r.events)))
                want = bytes(m.ref_bytes[len(m.returned) : len(m.returned) + len(data)])
                if want != data or not all(isinstance(e, bytes) for e in r.events):
                    fails.append(("C08:paste_out_of_order_or_not_pending", "paste %r, pending %r" % (r.events, want[:20])))
                    return "stop"
                m.returned.extend(data)
                th = scn["paste_threshold"]
                if th is None or not m.reads or m.reads[0] <= th:
                    fails.append(("C08:paste_event_without_large_read", "reads %r threshold %r" % (m.reads, th)))
                elif len(data) < m.reads[0]:
                    fails.append(("C08:paste_event_incomplete", "first read had %d bytes, paste holds %d" % (m.reads[0], len(data))))
                return r
            if isinstance(r, events.SigIntEvent):
                obs.append("sigint")
                if m.sigints <= 0:
                    fails.append(("C08:sigint_event_duplicated_or_invented", ""))
                    return "stop"
                m.sigints -= 1
                return r
            if isinstance(r, Sched):
                obs.append(("sched", r.when))
                if not m.sched:
                    fails.append(("C08:scheduled_event_duplicated_or_invented", repr(r)))
                    return "stop"
                if end < r.when:
                    fails.append(("C08:scheduled_event_before_its_time", "event for %.3f returned at %.6f" % (r.when, end)))
                raced = (m.request_no, kernel.selects_done)
                earlier = [x[0] for x in m.sched if x[0] < r.when and x[2] != raced]
                if earlier:
                    fails.append(("C08:scheduled_events_out_of_time_order", "returned %.3f while %.3f is pending" % (r.when, min(earlier))))
                for k, x in enumerate(m.sched):
                    w = x[0]
                    if w == r.when:
                        del m.sched[k]
                        break
                else:
                    fails.append(("C08:scheduled_event_duplicated_or_invented", repr(r)))
                    return "stop"
                return r
            if isinstance(r, TsTag):
                obs.append(("ts", r.tag))
                if not m.ts or m.ts[0] != r.tag:
                    fails.append(("C08:threadsafe_event_out_of_order_or_duplicated", "returned %r, pending %r" % (r.tag, m.ts)))
                    return "stop"
                m.ts.pop(0)
                return r
            if isinstance(r, Tag):
                obs.append(("event", r.tag))
                if not m.plain or m.plain[0] != r.tag:
                    fails.append(("C08:event_out_of_order_or_duplicated", "returned %r, pending %r" % (r.tag, m.plain)))
                    return "stop"
                m.plain.pop(0)
                return r
            fails.append(("C08:unknown_return_value", repr(r)))
            return "stop"

        stopped = False
        for i, it in enumerate(scn["script"]):
            env.pc = i + 1
            if it[0] == "req":
                if request(it[1], "script") == "stop":
                    stopped = True
                    break
            elif it[0] == "reenter":
                # the program leaves the context, input arrives meanwhile, and it enters the same Input again
                env.done[i] = True
                inp.__exit__(None, None, None)
                kernel.raw_write(kernel.TTY, it[1])
                model.arrived(it[1])
                inp.__enter__()
            elif not env.done[i]:
                env.deliver(("script", i), kernel)
        if not stopped and not fails:
            while env.paused_calls:
                env.deliver(("resume", 0), kernel)
            while env.deferred:
                env.deliver(("deferred", 0), kernel)
            for phase in ("drain", "late"):
                nones = 0
                for _ in range(60 + 3 * len(model.ref_bytes)):
                    r = request(0, phase)
                    if r == "stop":
                        stopped = True
                        break
                    nones = nones + 1 if r is None else 0
                    if nones >= 2:
                        break
                if stopped:
                    break
                kernel.clock += 100.0
            if not stopped and not fails:
                m = model
                if m.pending_bytes() or m.plain or m.ts or m.sched or m.sigints:
                    fails.append(("C08:not_everything_delivered_after_drain", "left over: bytes=%r plain=%r ts=%r sched=%r sigints=%d" % (bytes(m.ref_bytes[len(m.returned):]), m.plain, m.ts, m.sched, m.sigints)))
            if not stopped and not fails and scn.get("units") is not None and keys_out != scn["units"]:
                k = next((i for i, (x, y) in enumerate(zip(keys_out, scn["units"])) if x != y), min(len(keys_out), len(scn["units"])))
                off = sum(len(u) for u in scn["units"][:k])
                unit = scn["units"][k] if k < len(scn["units"]) else b""
                straddles = any(off < 1024 * j < off + len(unit) for j in range(1, 8))
                th_ = scn["paste_threshold"]
                sig_ = "C08:keypresses_cut_wrong_in_large_burst"
                if straddles and unit[:1] >= b"\xc2" and (th_ is None or th_ >= 1024):
                    sig_ = "C08:multibyte_character_split_by_the_1024_byte_read_comes_back_as_single_bytes"
                fails.append((sig_, "keypress %d is %r, expected %r (%d keypresses, %d expected)" % (k, keys_out[k : k + 2], scn["units"][k : k + 2], len(keys_out), len(scn["units"]))))
            if not stopped and (kernel.fds[kernel.TTY]["flags"] & vk.O_NONBLOCK):
                fails.append(("C08:stream_left_nonblocking", ""))
        while env.paused_calls:
            try:
                env.deliver(("resume", 0), kernel)
            except Exception:  # noqa
                break
        fails.extend(env.callback_failures)
        try:
            inp.__exit__(None, None, None)
        except Exception as ex:  # noqa
            fails.append(("C08:exit_raises:" + type(ex).__name__, repr(ex)))
    finally:
        vk.uninstall()
    return obs, fails, {"selects": kernel.selects}


# ---------------------------------------------------------------------------------------------------------------------------------
# scenarios

UNITS = (b"a", b"\x1b", b"\x1b[A", "ß".encode(), "∂".encode())


def cuts_of(stream, maxcuts):
    n = len(stream)
    for k in range(0, maxcuts + 1):
        for pos in itertools.combinations(range(1, n), k):
            b = (0,) + pos + (n,)
            yield [stream[x:y] for x, y in zip(b, b[1:])]


def family_bytes(thorough):
    streams = [u for u in UNITS] + [a + b for a in UNITS for b in UNITS]
    # bursts exactly at / just above the paste threshold 8
    streams += [b"a" * 8, b"a" * 9, b"\x1b[A" * 3, "∂".encode() * 3, b"ab" + "∂".encode() * 2, b"\x1b[A\x1b[B" + b"ab"]
    if thorough:
        streams += [b"a" + "∂".encode() + b"\x1b[A", "ß".encode() * 3, b"\x1b" + "ß".encode()]
    for stream in streams:
        for bursts in cuts_of(stream, 2 if len(stream) <= 6 else 1):
            for placement in ("all_first", "one_per_request"):
                for tpat in ((0,), (5.0,), (None,), (None, 0)):
                    for th in (None, 2, 8):
                        script = []
                        nreq = len(bursts) + 1
                        if placement == "all_first":
                            script += [("bytes", b) for b in bursts]
                            script += [("req", tpat[k % len(tpat)]) for k in range(nreq)]
                        else:
                            for k, b in enumerate(bursts):
                                script += [("bytes", b), ("req", tpat[k % len(tpat)])]
                            script.append(("req", 0))
                        # a request with timeout None must have something to wake it: make sure no untimed request is last without input
                        yield {"paste_threshold": th, "sigint_event": False, "script": script, "family": "bytes"}


POOL = [
    ("event", "e1"), ("event", "e2"), ("ts", "t1"), ("ts", "t2"), ("ts", "f3"),
    ("sched", "s_soon", T0 + 2.0), ("sched", "s_soon2", T0 + 2.0), ("sched", "s_past", T0 - 1.0), ("sched", "s_late", T0 + 8.0), ("sched", "s_mid", T0 + 3.0),
    ("sigint",), ("bytes", b"a"), ("bytes", b"\x1b[A"), ("unget", b"b"), ("bytes", b"abcdefghijkl"),
    ("sched2", "s2_early", T0 + 1.0), ("sched2", "s2_past", T0 - 2.0), ("unget", b"\x1b"), ("unget", b"\x1b["),
]


def family_events(thorough):
    pool = POOL
    combos = [(x,) for x in pool] + [c for c in itertools.permutations(pool, 2)]
    triples = [
        (("ts", "t1"), ("ts", "t2"), ("bytes", b"a")), (("ts", "t1"), ("ts", "t2"), ("event", "e1")), (("ts", "t1"), ("sigint",), ("ts", "t2")),
        (("sched", "s_soon", T0 + 2.0), ("sched", "s_mid", T0 + 3.0), ("sched", "s_past", T0 - 1.0)), (("sched", "s_mid", T0 + 3.0), ("sched", "s_soon", T0 + 2.0), ("sched", "s_soon2", T0 + 2.0)),
        (("sched", "s_late", T0 + 8.0), ("sched", "s_soon", T0 + 2.0), ("sched", "s_mid", T0 + 3.0)),
        (("event", "e1"), ("event", "e2"), ("ts", "t1")), (("bytes", b"a"), ("unget", b"b"), ("bytes", b"\x1b[A")), (("sigint",), ("bytes", b"a"), ("ts", "t1")),
        (("ts", "t1"), ("ts", "t2"), ("sched", "s_soon", T0 + 2.0)),
    ]
    if thorough:
        combos += triples + [c for c in itertools.permutations(pool[:10], 3) if len({x[0] for x in c}) >= 2][::7]
    else:
        combos += triples
    tpats = ((0, 0), (5.0, 5.0), (None, 5.0), (5.0, None), (None, None))
    for combo in combos:
        k = len(combo)
        sig = any(x[0] == "sigint" for x in combo)
        for slots in itertools.product(range(3), repeat=k):
            if list(slots) != sorted(slots):
                continue
            for tp in tpats:
                script = []
                for s in range(3):
                    script += [combo[j] for j in range(k) if slots[j] == s]
                    if s < 2:
                        script.append(("req", tp[s]))
                yield {"paste_threshold": 8, "sigint_event": sig, "script": script, "family": "events"}


def family_three_requests(thorough):
    """Three requests: earlier requests consume the events, so that late wake-ups (a deferred write, a left-over signal byte) reach a
    later *timed* request as spurious wake-ups."""
    pairs = [(("ts", "t1"), ("ts", "t2")), (("ts", "f1"), ("ts", "f2")), (("ts", "f1"), ("event", "e1")), (("ts", "t1"), ("sigint",)), (("sigint",), ("sigint",)), (("ts", "t1"), ("event", "e1")),
             (("ts", "t1"), ("bytes", b"a")), (("sigint",), ("sched", "s_soon", T0 + 2.0)), (("ts", "t1"), ("sched", "s_late", T0 + 8.0))]
    # a further thread-safe trigger is registered while a request may be waiting, an old wake-up byte arrives, then the new
    # trigger fires: the waiting request has to notice the new descriptor
    for tp in ((0, 5.0), (0, None), (5.0, 5.0)):
        yield {"paste_threshold": 8, "sigint_event": False, "family": "three_requests",
               "script": [("ts", "t1"), ("req", tp[0]), ("req", tp[1]), ("ts_register",), ("ts_fire_new", "n1"), ("req", 0)]}
        yield {"paste_threshold": 8, "sigint_event": True, "family": "three_requests",
               "script": [("sigint",), ("req", tp[0]), ("req", tp[1]), ("ts_register",), ("ts_fire_new", "n1"), ("req", 0)]}
    for a, b in pairs:
        sig = a[0] == "sigint" or b[0] == "sigint"
        for slots in ((0, 0), (0, 1), (1, 1), (0, 2), (1, 2)):
            for tp in ((0, 0, 5.0), (0, 5.0, 5.0), (5.0, 5.0, 5.0), (0, 0, None)):
                script = []
                for s_ in range(3):
                    script += [x for x, sl in ((a, slots[0]), (b, slots[1])) if sl == s_]
                    script.append(("req", tp[s_]))
                yield {"paste_threshold": 8, "sigint_event": sig, "script": script, "family": "three_requests"}


def family_large(thorough):
    d = "∂".encode()
    for lead in (0, 1, 2):
        for th in (None, 8, 2000):
            burst = b"a" * lead + d * 400
            nreq = 6 if th != 8 else 2
            yield {"paste_threshold": th, "sigint_event": False, "script": [("bytes", burst)] + [("req", 0)] * nreq, "family": "large_burst", "units": [b"a"] * lead + [d] * 400}
    for lead in (0, 1, 2, 3):
        burst = b"a" * lead + b"\x1b[A" * 342
        yield {"paste_threshold": 8, "sigint_event": False, "script": [("bytes", burst), ("req", 0), ("req", 0)], "family": "large_burst", "units": [b"a"] * lead + [b"\x1b[A"] * 342}
    # a paste larger than 64 KiB (more than 64 reads), a long escape sequence lying across offset 65 536
    for lead in range(0, 7):  # every alignment of the 7-byte cycle against whatever boundary the implementation has
        units = [b"a"] * lead + [b"\x1b[1;5D", b"x"] * 11000
        yield {"paste_threshold": 8, "sigint_event": False, "script": [("bytes", b"".join(units)), ("req", 0), ("req", 0)], "family": "large_burst", "units": units}
    # the longest table sequences (7 bytes) at every alignment against the 1 024-byte reads
    for lead in range(0, 8):
        units = [b"a"] * lead + [b"\x1b[1;10A", b"x"] * 400
        yield {"paste_threshold": 8, "sigint_event": False, "script": [("bytes", b"".join(units)), ("req", 0), ("req", 0)], "family": "large_burst", "units": units}
    # every paste threshold from 1 to 12 (and 100): sequences of 3, 4, 5 and 7 bytes at every alignment against the 1 024-byte read
    for th in (1, 2, 3, 4, 5, 6, 7, 9, 12, 100):
        for seq in (b"\x1b[A", b"\x1b[5~", b"\x1b[15~", b"\x1b[1;10A"):
            for lead in range(0, len(seq) + 1):
                units = [b"a"] * lead + [seq, b"x"] * 300
                yield {"paste_threshold": th, "sigint_event": False, "script": [("bytes", b"".join(units)), ("req", 0), ("req", 0)], "family": "large_burst", "units": units}
    for ch in ("\U0001f600".encode(), "\u00e9".encode(), "\U00020000".encode()):
        for lead in range(0, len(ch)):
            units = [b"a"] * lead + [ch] * (2100 // len(ch))
            yield {"paste_threshold": 8, "sigint_event": False, "script": [("bytes", b"".join(units)), ("req", 0), ("req", 0)], "family": "large_burst", "units": units}
    # more than 200 000 keypresses in one paste
    units = [b"a", b"b", b"c"] * 67000
    yield {"paste_threshold": 8, "sigint_event": False, "script": [("bytes", b"".join(units)), ("req", 0), ("req", 0)], "family": "large_burst", "units": units}
    # escape sequences and characters straddling every 1 024-byte read boundary of a multi-kilobyte paste
    for lead in range(0, 4):
        units = [b"a"] * lead + [b"\x1b[A", d, b"\x1b[15~"] * 400
        yield {"paste_threshold": 8, "sigint_event": False, "script": [("bytes", b"".join(units)), ("req", 0), ("req", 0)], "family": "large_burst", "units": units}


def family_lifecycle(thorough):
    """Input that is already waiting in the terminal when the context is entered (type-ahead), input arriving between leaving and
    re-entering the context, with and without the start/stop option - entering must not discard any of it."""
    tails = [[("req", 0), ("req", 0)], [("req", None), ("req", 0)], [("bytes", b"b"), ("req", 0), ("req", 0)], [("ts", "t1"), ("req", None), ("req", 0), ("req", 0)]]
    for dtss in (False, True):
        for sig in (False, True):
            for ta in (b"a", b"ls\n", b"\x1b[A", b"abcdefghij", "∂".encode()):
                for tail in tails:
                    yield {"paste_threshold": 8, "sigint_event": sig, "dtss": dtss, "typeahead": ta, "script": list(tail), "family": "lifecycle"}
            for mid in (b"x", b"\x1b[B", b"xyzxyzxyzxyz"):
                for head in ([], [("bytes", b"a"), ("req", 0)], [("bytes", b"ab"), ("req", 0)], [("bytes", b"q")], [("bytes", b"a\x1b"), ("req", 0)], [("bytes", b"a\x1b["), ("req", 0)], [("bytes", b"ab\x1bO"), ("req", 0), ("req", 0)], [("event", "e1")], [("ts", "t1")], [("sigint",)] if sig else [("unget", b"u")]):
                    for tail in tails[:3] if not thorough else tails:
                        yield {"paste_threshold": 8, "sigint_event": sig, "dtss": dtss, "script": list(head) + [("reenter", mid)] + list(tail), "family": "lifecycle"}


def family_process_environment(thorough):
    """(a) the standard descriptors are closed and the terminal sits on a high number: the first pipes get descriptors 0, 1, 2 ...;
    (b) the program has its own handler for another signal (SIGWINCH) which arrives once, twice, three times inside requests."""
    T = T0
    heads = [[("sigint",)], [("ts", "t1")], [("sigint",), ("ts", "t1")], [("bytes", b"a"), ("sigint",)], [("event", "e1"), ("sigint",)], [("sched", "s_past", T - 1.0), ("sigint",)]]
    for head in heads:
        for tp in ((None, 0), (5.0, 0), (0, None), (5.0, 5.0)):
            for slots in ("before", "between", "inside"):
                if slots == "inside":  # listed behind the request: may arrive while it waits
                    script = [("req", tp[0])] + list(head) + [("req", tp[1]), ("req", 0)]
                else:
                    script = (list(head) + [("req", tp[0]), ("req", tp[1])]) if slots == "before" else ([("req", 0)] + list(head) + [("req", tp[0]), ("req", tp[1])])
                yield {"paste_threshold": 8, "sigint_event": True, "low_fds": True, "script": script, "family": "process_environment"}
    for n in (1, 2, 3):
        for extra in ([], [("bytes", b"a")], [("ts", "t1")], [("sched", "s_late", T + 8.0)]):
            for tp in (5.0, None):
                if tp is None and not any(x[0] in ("bytes", "ts") for x in extra):
                    continue
                for where in ("before", "inside"):
                    if where == "before":
                        script = [("sigwinch",)] * n + list(extra) + [("req", tp), ("req", 5.0), ("req", 0)]
                    else:
                        script = [("req", tp)] + [("sigwinch",)] * n + list(extra) + [("req", 5.0), ("req", 0)]
                    yield {"paste_threshold": 8, "sigint_event": n % 2 == 0, "winch_handler": True, "script": script, "family": "process_environment"}
                    yield {"paste_threshold": 8, "sigint_event": True, "winch_handler": True, "low_fds": True, "script": script, "family": "process_environment"}


def family_long_session(thorough):
    """One Input, hundreds of requests: keys, escape sequences, plain / thread-safe / scheduled events, ungets and SIGINTs in a fixed
    rotation (default schedule only) - anything that counts requests or ages internal state meets its threshold."""
    n = 900 if thorough else 300
    for sig in (False, True):
        for rot in (0, 3):
            script = []
            for k in range(n):
                m = (k + rot) % 7
                if m == 0:
                    script += [("bytes", b"a"), ("req", 0)]
                elif m == 1:
                    script += [("event", "e%d" % k), ("req", 0)]
                elif m == 2:
                    script += [("ts", "t%d" % k), ("req", None)]
                elif m == 3:
                    script += [("sched", "s%d" % k, T0 - 1.0), ("req", 5.0)]
                elif m == 4:
                    script += [("bytes", b"\x1b[A"), ("unget", b"b"), ("req", 0), ("req", 0)]
                elif m == 5:
                    script += [("sigint",), ("req", None)] if sig else [("ts", "f%d" % k), ("event", "e%d" % k), ("req", 0), ("req", 0)]
                else:
                    script += [("req", 0)]
            yield {"paste_threshold": 8, "sigint_event": sig, "script": script, "family": "long_session", "max_selects": 20 * n}


def usable(scn):
    """Drop scripts in which an untimed request would block forever by construction (nothing after it can wake it)."""
    script = scn["script"]
    for i, it in enumerate(script):
        if it[0] == "req" and it[1] is None:
            before = [x for x in script[:i] if x[0] != "req"] + ([1] if scn.get("typeahead") else [])
            after = [x for x in script[i + 1 :] if x[0] in ("bytes", "ts", "sigint")]
            if not before and not after:
                return False
    return True


def show(scn):
    def s(it):
        return [x.decode("latin-1") if isinstance(x, bytes) else x for x in it]

    out = {"paste_threshold": scn["paste_threshold"], "sigint_event": scn["sigint_event"], "script": [s(it) for it in scn["script"]], "family": scn["family"]}
    if "typeahead" in scn:
        out["typeahead"] = scn["typeahead"].decode("latin-1")
    if "dtss" in scn:
        out["disable_terminal_start_stop"] = scn["dtss"]
    for k_ in ("low_fds", "winch_handler"):
        if scn.get(k_):
            out[k_] = True
    return out


def all_scenarios(tier):
    thorough = tier == "thorough"
    out = []
    for fam in (family_bytes, family_events, family_three_requests, family_large, family_lifecycle, family_long_session, family_process_environment):
        for scn in fam(thorough):
            if usable(scn):
                out.append(scn)
    return out


def timing_independent(scn):
    """Scenarios whose default schedule does not depend on how long anything takes: every request has timeout 0, scheduled events
    lie in the past.  These are replayed on a REAL pty, real pipes, real select and real signal delivery."""
    if scn["family"] in ("large_burst", "long_session"):
        return False
    for it in scn["script"]:
        if it[0] == "req" and it[1] != 0:
            return False
        if it[0] in ("sched", "sched2") and it[2] >= T0:
            return False
        if it[0] in ("ts_register", "ts_fire_new", "sigwinch"):
            return False
    if scn.get("low_fds"):
        return False
    return True


def real_run(scn):
    """The scenario's default schedule on the real kernel. Returns the observation list in the same format as run_scenario."""
    global _EV
    import os
    import select
    import signal
    import time

    import curtsies.input as ci
    from curtsies import events

    vk.uninstall()
    ci.getpreferredencoding = lambda: "utf-8"
    if _EV is None:
        _EV = make_events()
    Tag, TsTag, Sched = _EV
    master, slave = os.openpty()

    class RealStream:
        encoding = "utf-8"

        def fileno(self):
            return slave

    obs = []
    before_fds = set(os.listdir("/proc/self/fd"))
    inp = ci.Input(in_stream=RealStream(), keynames="bytes", paste_threshold=scn["paste_threshold"], sigint_event=scn["sigint_event"], disable_terminal_start_stop=scn.get("dtss", False))
    try:
        if scn.get("typeahead"):
            # the terminal is still in line mode: what is typed now only becomes readable once cbreak mode is on
            os.write(master, scn["typeahead"])
            time.sleep(0.03)
        with inp:
            cbs = {"plain": inp.event_trigger(Tag), "ts": inp.threadsafe_event_trigger(TsTag), "sched": inp.scheduled_event_trigger(Sched), "sched2": inp.scheduled_event_trigger(Sched)}

            def request():
                try:
                    r = inp.send(0)
                except Exception as ex:  # noqa
                    obs.append("exception:" + type(ex).__name__)
                    return "stop"
                if r is None:
                    obs.append("None")
                elif isinstance(r, bytes):
                    obs.append(("key", r))
                elif isinstance(r, events.PasteEvent):
                    obs.append(("paste", tuple(r.events)))
                elif isinstance(r, events.SigIntEvent):
                    obs.append("sigint")
                elif isinstance(r, Sched):
                    obs.append(("sched", "past"))
                elif isinstance(r, TsTag):
                    obs.append(("ts", r.tag))
                elif isinstance(r, Tag):
                    obs.append(("event", r.tag))
                return r

            stopped = False
            for it in scn["script"]:
                k = it[0]
                if k == "req":
                    if request() == "stop":
                        stopped = True
                        break
                elif k == "bytes":
                    # the pty hands data to the line discipline asynchronously: wait until all of it is readable
                    import array
                    import fcntl as _fcntl
                    import termios as _termios

                    def pending():
                        buf = array.array("i", [0])
                        _fcntl.ioctl(slave, _termios.FIONREAD, buf)
                        return buf[0]

                    want = pending() + len(it[1])
                    os.write(master, it[1])
                    deadline = time.time() + 2.0
                    while pending() < want and time.time() < deadline:
                        select.select([], [], [], 0.0005)
                elif k == "unget":
                    inp.unget_bytes(it[1])
                elif k == "reenter":
                    inp.__exit__(None, None, None)
                    os.write(master, it[1])
                    time.sleep(0.03)
                    inp.__enter__()
                elif k == "event":
                    cbs["plain"](tag=it[1])
                elif k == "ts":
                    cbs["ts"](tag=it[1])
                elif k in ("sched", "sched2"):
                    cbs[k](time.time() - (1.0 if k == "sched" else 2.0))
                elif k == "sigint":
                    signal.raise_signal(signal.SIGINT)
            if not stopped:
                nones = 0
                for _ in range(80):
                    r = request()
                    if r == "stop":
                        break
                    nones = nones + 1 if r is None else 0
                    if nones >= 2:
                        break
    finally:
        for name in set(os.listdir("/proc/self/fd")) - before_fds:
            try:
                os.close(int(name))
            except (OSError, ValueError):
                pass
        os.close(master)
        os.close(slave)
    return obs


def normalise_obs(obs):
    out = []
    for o in obs:
        if isinstance(o, tuple) and o[0] == "sched":
            out.append(("sched", "past"))
        else:
            out.append(o)
    # the virtual run has two drain phases (the second after advancing the clock): trailing Nones are not significant
    while out and out[-1] == "None":
        out.pop()
    return out


def shard(args):
    tier, seed, idx, nshards, bound = args
    acc = Acc(seed=seed, sample_stride=4999)
    scns = all_scenarios(tier)
    for si in range(idx, len(scns), nshards):
        scn = scns[si]
        b = 0 if scn["family"] in ("large_burst", "long_session") else bound
        shown = show(scn)

        def on_exec(prefix, ch, result):
            obs, fails, meta = result
            acc.case(len(prefix) > 0 or len(scn["script"]) > 2, key=(si, prefix))
            acc.transitions += len(ch.points)
            acc.outcome(str(obs)[:200])
            if len(acc.samples) < 3 and (not acc.samples or (acc.n + seed) % 499 == 0):
                acc.samples.append({"scenario": shown, "choices": list(prefix), "observed": [str(o) for o in obs]})
            for sig, msg in fails:
                labels = [p[0][p[2]] for p in ch.points]
                acc.failure(sig, {"scenario": shown, "choices": list(prefix), "choice_labels": labels, "observed": [str(o) for o in obs]}, msg)
            if fails and len(prefix) > 0:
                # determinism: the same schedule must fail the same way every time
                obs2, fails2, _ = run_scenario(scn, vk.Chooser(prefix))
                if [f[0] for f in fails2] != [f[0] for f in fails] or str(obs2) != str(obs):
                    acc.failure("harness:nondeterministic_replay", {"scenario": shown, "choices": list(prefix)}, "%r vs %r" % (fails, fails2))

        try:
            n, complete = vk.explore(lambda ch: run_scenario(scn, ch), b, on_exec, max_executions=20000)
        except vk.HarnessError as ex:
            acc.failure("harness:explorer", {"scenario": shown}, repr(ex))
            continue
        acc.state(hash(si))
        if not complete:
            acc.add("scenarios_capped")
        # ---- validation of the virtual kernel against the real one ---------------------------------------------
        if timing_independent(scn):
            virt, vfails, _ = run_scenario(scn, vk.Chooser(()))
            real = None
            for attempt in range(3):  # the real kernel is the only non-deterministic party: a disagreement must be reproducible
                try:
                    real = real_run(scn)
                except Exception as ex:  # noqa
                    real = ["real run failed: %r" % (ex,)]
                if normalise_obs(virt) == normalise_obs(real):
                    break
            if normalise_obs(virt) != normalise_obs(real):
                acc.failure("harness:virtual_kernel_disagrees_with_real_kernel", {"scenario": shown, "virtual": [str(o) for o in virt], "real": [str(o) for o in real]}, "observation sequences differ")
            else:
                acc.validated += 1
    return acc.export()


def run(ctx):
    rep = Report()
    bound = 3 if ctx.thorough else 2
    ns = 128
    for d in ctx.pmap(shard, [(ctx.tier, ctx.seed, i, ns, bound) for i in range(ns)]):
        rep.merge(d)
    rep.exhaustive = not rep.extra.get("scenarios_capped")
    rep.extra["deviation_bound_completed"] = bound
    rep.extra["scenarios"] = len(all_scenarios(ctx.tier))
    rep.rule = (
        "%d scenarios (byte streams from the units a, ESC, ESC[A, a 2-byte and a 3-byte character cut into bursts at every byte position, "
        "thresholds None/2/8; all placements of 1-2 (selected 3) environment events - event/threadsafe/scheduled triggers with past, equal and "
        "future times, SIGINT, arrivals, unget_bytes, falsy event objects, a trigger registered during a request - among requests with timeouts "
        "0/5.0/None; lifecycle: input pending before the context is entered, input between leaving and re-entering, disable_terminal_start_stop "
        "on/off, TCSAFLUSH honoured; multi-kilobyte bursts up to 201 000 keypresses, table sequences at every alignment to the 1 024-byte read) x every execution with at "
        "most %d deviation(s) from the default schedule (an event delivered early at any kernel call of a request, inside a timed wait, or a "
        "thread-safe callback preempted between any two of its lines). evaluations = executions of the real Input; transitions = choice points; "
        "states = scenarios; distinct outcomes = distinct observation sequences" % (len(all_scenarios(ctx.tier)), bound)
    )
    rep.assumptions = [
        "the virtual kernel (mc/vk.py) models os/select/time/fcntl/signal as CPython uses them; list.append is atomic under the GIL; every "
        "timing-independent scenario's default schedule is replayed on a real pty, real pipes, real select and real signal delivery and must "
        "produce the same observation sequence (traces_validated_against_impl)",
        "no requirement on priority between sources; an event_trigger event fired during a blocked request need not wake it (documented)",
        "scheduling points are the kernel calls made by the library (select, read, time, fcntl, signal), not every bytecode",
    ]
    return rep


def replay(ctx, case):
    return []
