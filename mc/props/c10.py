"""C10 - width and width_aware_slice measure and cut by terminal columns (DESIGN.md 4/C10).

Space  : every string of length <= N over {a (1 column), FULLWIDTH E (2), COMBINING GRAVE U+0300 (0)} (thorough: + a CJK ideograph),
         every cut into <= 3 runs (empty runs included), palette P3; width; width_at_offset(n), n in 0..len+1;
         width_aware_slice(a:b) for every 0 <= a <= b <= width+2.
Oracle : independent column expansion (each character owns columns [x, x+w)): width = sum of w; width_at_offset(n) = sum of the first n;
         slice: width == |[a,b) n [0,width)|; its non-zero-width cells, in order, are the character with its formatting when it lies
         wholly inside and one space with that character's formatting per overlapped column when a double-width character is cut;
         zero-width characters in the result come from the original, in order, each attached to the same base cell, never invented,
         and are present when their base character lies wholly inside.
"""
import itertools

from mc import cells as C
from mc import repeat
from mc.runner import Acc, Report

LEVEL = "model_checking"
class _Widths(dict):
    """Column widths beyond the small alphabet: East Asian wide / fullwidth = 2, combining marks = 0, everything else 1."""

    def __missing__(self, c):
        import unicodedata

        o = ord(c)
        zero = unicodedata.combining(c) or 0x200B <= o <= 0x200D or 0xFE00 <= o <= 0xFE0F or 0xE0100 <= o <= 0xE01EF or 0x1160 <= o <= 0x11FF
        w = 0 if zero else (2 if unicodedata.east_asian_width(c) in ("W", "F") else 1)
        self[c] = w
        return w


W = _Widths({"a": 1, "Ｅ": 2, "̀": 0, "漢": 2, "b": 1})


def expected_slice(fc, a, b):
    """Returns (list of non-zero-width cells expected, list of (cell, must_be_present, base_index) for zero-width chars)."""
    out = []  # items: ("cell", cell) or ("zw", cell, required)
    x = 0
    last_base_inside = None  # None = no base yet
    for c, att in fc:
        w = W[c]
        if w == 0:
            if last_base_inside is None:
                out.append(("zw", (c, att), False, True))  # no base: unconstrained, allowed
            else:
                out.append(("zw", (c, att), last_base_inside == "inside", True))
            continue
        lo, hi = max(x, a), min(x + w, b)
        if lo >= hi:
            last_base_inside = "outside"
        elif lo == x and hi == x + w:
            out.append(("cell", (c, att)))
            last_base_inside = "inside"
        else:
            for _ in range(hi - lo):
                out.append(("cell", (" ", att)))
            last_base_inside = "cut"
        x += w
    return out


def match(got, exp):
    """got: list of cells; exp: expected items. Zero-width items: (cell, required, allowed).
    Returns None when got matches, else a short reason."""
    i = 0
    for item in exp:
        if item[0] == "cell":
            if i >= len(got) or got[i] != item[1]:
                return "cells"
            i += 1
        else:
            _, cell, required, allowed = item
            if i < len(got) and got[i] == cell and W.get(got[i][0], 1) == 0 and allowed:
                i += 1
            elif required:
                return "zero_width_missing"
    return None if i == len(got) else "extra_characters"


def check_value(acc, spec, how=None):
    if how is None:
        f = C.build(spec)
        fc = C.cells(f)
        shown = C.show_spec(spec)
    else:
        f, fc = C.build_repeated(spec, how)
        shown = {"spec": C.show_spec(spec), "value": how}
        if C.cells(f) != fc:
            acc.failure("harness:repeated_value", {"f": shown}, "")
            return
    snap = C.snapshot(f)
    widths = [W[c] for c, _ in fc]
    total = sum(widths)
    n = len(fc)
    wide = any(w == 2 for w in widths)
    case = {"f": shown, "op": "width"}
    acc.case(n > 0, key=(spec, "w"), sample=case)
    acc.transitions += 1
    try:
        got = f.width
        if got != total:
            acc.failure("C10:width", case, "got %r expected %r" % (got, total))
    except Exception as ex:  # noqa
        acc.failure("C10:width_raises:" + type(ex).__name__, case, repr(ex))
        return
    for k in range(0, n + 2):
        case = {"f": shown, "op": "width_at_offset", "n": k}
        acc.case(0 < k <= n, key=(spec, "o", k), sample=case)
        acc.transitions += 1
        try:
            got = f.width_at_offset(k)
            if got != sum(widths[:k]):
                acc.failure("C10:width_at_offset", case, "got %r expected %r" % (got, sum(widths[:k])))
        except Exception as ex:  # noqa
            acc.failure("C10:width_at_offset_raises:" + type(ex).__name__, case, repr(ex))
    for a in range(0, total + 3):
        for b in range(a, total + 3):
            case = {"f": shown, "op": "width_aware_slice", "a": a, "b": b}
            acc.case(wide or 0 in widths, key=(spec, "s", a, b), sample=case)
            acc.transitions += 1
            try:
                r = f.width_aware_slice(slice(a, b))
                gc = C.cells(r)
                rw = r.width
            except Exception as ex:  # noqa
                acc.failure("C10:slice_raises:" + type(ex).__name__, case, repr(ex))
                continue
            acc.state(hash(tuple(gc)))
            want_w = max(0, min(b, total) - min(a, total))
            got_w = sum(W.get(c, 1) for c, _ in gc)
            if got_w != want_w or rw != want_w:
                acc.failure("C10:slice_width", case, "result %r has width %r (reports %r), expected %r" % (gc, got_w, rw, want_w))
                continue
            exp = expected_slice(fc, a, b)
            why = match(gc, exp)
            if why:
                acc.failure("C10:slice_content:" + why, case, "got %r expected %r" % (gc, exp))
    # slices taken from ONE object in a non-monotone order must equal the slices taken above (each compared with the model)
    ranges = [(a, b) for a in range(0, total + 3) for b in range(a, total + 3)]
    order = ranges[::-1][::3] + ranges[1::7] + ranges[::5]
    for a, b in order:
        try:
            gc = C.cells(f.width_aware_slice(slice(a, b)))
        except Exception as ex:  # noqa
            acc.failure("C10:slice_raises:" + type(ex).__name__, {"f": shown, "op": "width_aware_slice (second pass)", "a": a, "b": b}, repr(ex))
            break
        why = match(gc, expected_slice(fc, a, b))
        acc.transitions += 1
        if why:
            acc.failure("C10:slice_depends_on_earlier_slices", {"f": shown, "op": "width_aware_slice in shuffled order on one object", "a": a, "b": b}, "got %r (%s)" % (gc, why))
            break
    # widths must not depend on history: measure, repeat (also a negative number of times), measure again
    try:
        for cnt in (-2, -1, 0, 1, 2):
            r = f * cnt
            want_w = total * max(0, cnt)
            if r.width != want_w or sum(W[c] for c, _ in C.cells(r)) != want_w:
                acc.failure("C10:width_after_repetition", {"f": shown, "op": "f * %d after f.width was read" % cnt}, "width %r, expected %r" % (r.width, want_w))
                break
        acc.transitions += 5
    except Exception as ex:  # noqa
        acc.failure("C10:width_after_repetition_raises:" + type(ex).__name__, {"f": shown}, repr(ex))
    try:
        for extra, ew in (("q", 1), ("Ｅ", 2), ("̀", 0)):
            g = f + extra
            h = extra + f
            if g.width != total + ew or h.width != total + ew or f.width != total:
                acc.failure("C10:width_after_concatenation", {"f": shown, "op": "f + %r / %r + f" % (extra, extra)}, "f.width=%r (f+x).width=%r (x+f).width=%r, expected %r / %r" % (f.width, g.width, h.width, total, total + ew))
                break
            for k in (0, n // 2, n, n + 1):
                if f.width_at_offset(k) != sum(widths[:k]) or g.width_at_offset(k) != sum((widths + [ew])[:k]) or h.width_at_offset(k) != sum(([ew] + widths)[:k]):
                    acc.failure("C10:width_at_offset_after_concatenation", {"f": shown, "op": "f + %r" % extra, "n": k}, "f:%r g:%r h:%r" % (f.width_at_offset(k), g.width_at_offset(k), h.width_at_offset(k)))
                    break
        acc.transitions += 3
        # siblings: several values extended from the same measured f stay apart - each is measured at every offset only after
        # all of them exist (and once more after yet another one was built from the first sibling)
        sibs = [(label, mk(f), ws) for label, mk, ws in (
            ("f + 'q'", lambda x: x + "q", widths + [1]), ("f + 'Ｅ̀'", lambda x: x + "Ｅ̀", widths + [2, 0]), ("f + ''", lambda x: x + "", widths),
            ("f + f", lambda x: x + x, widths + widths), ("'Ｅ' + f", lambda x: "Ｅ" + x, [2] + widths), ("f + 'ab'", lambda x: x + "ab", widths + [1, 1]),
        )]
        for rnd in (0, 1):
            for label, g, ws in sibs + [("f", f, widths)]:
                for k in range(0, len(ws) + 2):
                    acc.transitions += 1
                    got = g.width_at_offset(k)
                    if got != sum(ws[:k]):
                        acc.failure("C10:width_at_offset_of_sibling", {"f": shown, "op": "%s, measured after its siblings were built from the same f" % label, "n": k}, "got %r expected %r" % (got, sum(ws[:k])))
                        break
                if g.width != sum(ws):
                    acc.failure("C10:width_of_sibling", {"f": shown, "op": label}, "got %r expected %r" % (g.width, sum(ws)))
            sibs[0][1] + "ＥＥ"
            f + "Ｅ"
    except Exception as ex:  # noqa
        acc.failure("C10:width_after_concatenation_raises:" + type(ex).__name__, {"f": shown}, repr(ex))
    if C.snapshot(f) != snap:
        acc.failure("C10:operand_changed", {"f": shown}, "")


def shard_scale(args):
    """Sizes far beyond small (cells.scale_specs): width, width_at_offset and width_aware_slice at ~20 column points (around the ends,
    run boundaries, wide characters) in both nestings, on one object, plus a shuffled second pass."""
    tier, seed, idx, nshards = args
    acc = Acc(seed=seed, sample_stride=4999)
    specs = C.scale_specs(tier == "thorough")
    for si in range(idx, len(specs), nshards):
        spec = specs[si]
        f = C.build(spec)
        fc = C.spec_cells(spec)
        shown = {"scale_value": {"characters": len(fc), "runs": len(spec), "first_runs": C.show_spec(spec[:3])}}
        widths = [W[c] for c, _ in fc]
        total = sum(widths)
        n = len(fc)
        acc.case(True, key=("scale", si), sample=shown)
        try:
            if f.width != total:
                acc.failure("C10:width", dict(shown, op="width"), "got %r expected %r" % (f.width, total))
                continue
        except Exception as ex:  # noqa
            acc.failure("C10:width_raises:" + type(ex).__name__, shown, repr(ex))
            continue
        prefix = [0]
        for w_ in widths:
            prefix.append(prefix[-1] + w_)
        cpts = sorted({p for p in (C.few_points(spec, 12)) if 0 <= p <= n})
        for k in cpts + [n + 1]:
            acc.transitions += 1
            try:
                got = f.width_at_offset(k)
                if got != prefix[min(k, n)]:
                    acc.failure("C10:width_at_offset", dict(shown, op="width_at_offset", n=k), "got %r expected %r" % (got, prefix[min(k, n)]))
            except Exception as ex:  # noqa
                acc.failure("C10:width_at_offset_raises:" + type(ex).__name__, dict(shown, n=k), repr(ex))
        cols = sorted({prefix[p] for p in cpts} | {prefix[p] + 1 for p in cpts} | {0, 1, total - 1, total, total + 2, total // 2, 2500, 2501} )
        cols = [c_ for c_ in cols if 0 <= c_ <= total + 2]
        pairs = [(a, b) for a in cols for b in cols if a <= b]
        results = {}
        for a, b in pairs + pairs[::-3]:
            case = dict(shown, op="width_aware_slice", a=a, b=b)
            acc.case(True, key=("scale", si, a, b))
            acc.transitions += 1
            try:
                r = f.width_aware_slice(slice(a, b))
                gc = C.cells(r)
                rw = r.width
            except Exception as ex:  # noqa
                acc.failure("C10:slice_raises:" + type(ex).__name__, case, repr(ex))
                continue
            want_w = max(0, min(b, total) - min(a, total))
            got_w = sum(W[c] for c, _ in gc)
            if got_w != want_w or rw != want_w:
                acc.failure("C10:slice_width", case, "result of %d cells has width %r (reports %r), expected %r" % (len(gc), got_w, rw, want_w))
                continue
            why = match(gc, expected_slice(fc, a, b))
            if why:
                acc.failure("C10:slice_content:" + why, case, "got %r ..." % (gc[:12],))
            elif (a, b) in results and results[(a, b)] != gc:
                acc.failure("C10:slice_depends_on_earlier_slices", case, "")
            results[(a, b)] = gc
    return acc.export()


def shard_columns(args):
    """Every start column of long values in which a double-width character lies across every even (resp. odd) column: a slice
    starting in the middle of a wide character at ANY column, in one run / runs of 7 / runs of 60."""
    tier, seed, idx, nshards = args
    acc = Acc(seed=seed, sample_stride=4999)
    nwide = 450 if tier == "thorough" else 220
    texts = ["Ｅ" * nwide, "a" + "漢" * nwide, ("aＥ" * nwide)[:nwide], "ab" + "Ｅ\u0300" * (nwide // 2)]
    specs = []
    for t in texts:
        specs.append(((t, (("fg", 31),)),))
        specs.append(tuple((t[i : i + 7], C.P3[(i // 7) % 3]) for i in range(0, len(t), 7)))
        specs.append(tuple((t[i : i + 60], C.P3[(i // 60) % 3]) for i in range(0, len(t), 60)))
    k = 0
    for si, spec in enumerate(specs):
        f = C.build(spec)
        fc = C.spec_cells(spec)
        total = sum(W[c] for c, _ in fc)
        shown = {"value": {"characters": len(fc), "columns": total, "runs": len(spec), "first_runs": C.show_spec(spec[:2])}}
        for a in range(0, total + 1):
            k += 1
            if k % nshards != idx:
                continue
            for b in (a, a + 1, a + 2, a + 9, total):
                if b > total + 1:
                    continue
                case = dict(shown, op="width_aware_slice", a=a, b=b)
                acc.case(True, key=("col", si, a, b), sample=case)
                acc.transitions += 1
                try:
                    r = f.width_aware_slice(slice(a, b))
                    gc = C.cells(r)
                    rw = r.width
                except Exception as ex:  # noqa
                    acc.failure("C10:slice_raises:" + type(ex).__name__, case, repr(ex))
                    continue
                want_w = max(0, min(b, total) - min(a, total))
                got_w = sum(W[c] for c, _ in gc)
                if got_w != want_w or rw != want_w:
                    acc.failure("C10:slice_width", case, "result of %d cells has width %r (reports %r), expected %r" % (len(gc), got_w, rw, want_w))
                    continue
                why = match(gc, expected_slice(fc, a, b))
                if why:
                    acc.failure("C10:slice_content:" + why, case, "got %r ..." % (gc[:8],))
    return acc.export()


def shard(args):
    tier, seed, idx, nshards = args
    acc = Acc(seed=seed, sample_stride=19997)
    thorough = tier == "thorough"
    sigma = ("a", "Ｅ", "̀", "漢", "\u200d") if thorough else ("a", "Ｅ", "̀", "\u200d")  # U+200D: zero width, combining class 0
    maxlen = 5 if thorough else 4
    i = 0
    for n in range(maxlen + 1):
        for t in itertools.product(sigma, repeat=n):
            text = "".join(t)
            for spec in C.cuts(text, max_runs=3 if n <= 4 else 2):
                i += 1
                if i % nshards == idx:
                    check_value(acc, spec)
    for n in range(1, 4):
        for t in itertools.product(sigma, repeat=n):
            for spec in C.cuts("".join(t), max_runs=2):
                for how in C.REPEAT_HOWS:
                    i += 1
                    if i % nshards == idx:
                        check_value(acc, spec, how)
    # longer strings (8, 16, 17, 33 characters) built from repeating patterns, cut into 1, 2, 5 and 8 runs
    for pat in ("a", "Ｅ", "a漢", "Ｅ\u0300a", "a\u0300\u0300Ｅ", "ＥＥa", "Ｅ\u200d", "Ｅ\ufe0f漢\u1160", "\u203c\ufe0fa", "\u2764\ufe0fＥ\u200d", "a\ufe0e"):
        for total in (8, 16, 17, 33):
            text = (pat * total)[:total]
            for nruns in (1, 2, 5, 8):
                i += 1
                if i % nshards != idx:
                    continue
                step = max(1, total // nruns)
                parts = [text[j : j + step] for j in range(0, total, step)]
                spec = tuple((p_, C.P3[k % 3]) for k, p_ in enumerate(parts))
                check_value(acc, spec)
    return acc.export()


def run(ctx):
    rep = Report()
    repeat.run_into(ctx, rep, "C10")
    ns = 128 if ctx.thorough else 32
    for d in ctx.pmap(shard, [(ctx.tier, ctx.seed, i, ns) for i in range(ns)]):
        rep.merge(d)
    for d in ctx.pmap(shard_scale, [(ctx.tier, ctx.seed, i, 32) for i in range(32)]):
        rep.merge(d, "scale_sweep")
    for d in ctx.pmap(shard_columns, [(ctx.tier, ctx.seed, i, 32) for i in range(32)]):
        rep.merge(d, "every_start_column_of_long_wide_values")
    rep.validated = rep.n
    rep.rule = (
        "every string over {a, fullwidth E, combining grave%s} of length <= %d, every cut into <= 3 runs with empty runs (P3); width, "
        "width_at_offset(0..len+1), width_aware_slice for every 0<=a<=b<=width+2. Distinct by construction; non-trivial = the value has a "
        "double-width or zero-width character; states = distinct slice results" % (", CJK ideograph" if ctx.thorough else "", 5 if ctx.thorough else 4)
    )
    rep.assumptions = [
        "column widths: a=1, fullwidth/CJK=2, combining=0 (cwcwidth agrees; checked by the width clause itself)",
        "zero-width characters are only required not to be invented and to stay with a wholly included base character",
    ]
    return rep


def replay(ctx, case):
    acc = Acc()
    fd = case["f"]
    how = None
    if isinstance(fd, dict):
        how, fd = fd["value"], fd["spec"]
    spec = tuple((t, tuple(sorted(a.items()))) for t, a in fd)
    check_value(acc, spec, how)
    return [(s, e["cases"][0]["message"]) for s, e in acc.fail.items()]
