"""C20 - key naming modes and config-file key names are mutually consistent (DESIGN.md 4/C20).

Runs the decoder's decision-tree exploration (mc/decoder.py, shared with C03) with the three naming modes in lock-step and keeps the
C20 clauses: same kind of outcome (None / key / exception) in all modes at every state for both values of `full`; bytes naming returns
exactly the state's bytes; plus: every key of the curses table is a key of the curtsies table; every name the configuration-file syntax
can produce for a valid key is a name the decoder can actually produce; keymap[''] == ().
"""
import string

from mc import decoder as D
from mc.runner import Acc, Report
from mc.props import c03

LEVEL = "model_checking"


def config_names():
    names = ["C-" + c for c in string.ascii_lowercase] + ["C-[", "C-\\", "C-]", "C-^", "C-_"]
    names += ["M-" + chr(c) for c in range(0x21, 0x7F)]
    names += ["F%d" % i for i in range(1, 13)]
    names += ["F01", "F09", "F012", "F001"]  # zero-padded spellings are accepted by the F-key branch
    return names


class _PipeIn:
    encoding = "utf-8"

    def __init__(self):
        import os

        self.r, self.w = os.pipe()

    def fileno(self):
        return self.r

    def close(self):
        import os

        os.close(self.r)
        os.close(self.w)


def shard_streams(args):
    """The three naming modes through the real Input (never entered, reading from a pipe): bursts in which an escape sequence of
    3..7 bytes lies at every position across the 1 024-byte read boundary, with paste detection off / low / high. All modes must cut
    the stream at the same places, bytes mode must return exactly the bytes, the other modes the names of those byte groups (the bytes mode's own cut is the reference)."""
    tier, seed, idx, nshards = args
    import os

    import curtsies.input as ci
    from curtsies import events

    acc = Acc(seed=seed)
    ci.getpreferredencoding = lambda: "utf-8"
    seqs = [b"\x1b[A", b"\x1bOP", b"\x1b[1;10A", b"\x1b[15~", b"\x1b\x7f", b"\x1b[1;5C"]
    k = 0
    for seq in seqs:
        for lead in list(range(1015, 1027)) + [2039, 2047, 2048, 0, 1]:
            for tail in (b"", b"b", seq + b"zz"):
                for th in (None, 8, 5000):
                    k += 1
                    if k % nshards != idx:
                        continue
                    units = [b"a"] * lead + [seq] + ([tail] if len(tail) == 1 else [seq, b"z", b"z"] if tail else [])
                    data = b"".join(units)
                    out = {}
                    for mode in ("bytes", "curtsies", "curses"):
                        ps = _PipeIn()
                        try:
                            inp = ci.Input(in_stream=ps, keynames=mode, paste_threshold=th)
                            os.write(ps.w, data)
                            got, nones = [], 0
                            for _ in range(len(units) + 10):
                                try:
                                    e = inp.send(0)
                                except Exception as ex:  # noqa
                                    got.append(("exc", type(ex).__name__))
                                    break
                                if e is None:
                                    nones += 1
                                    if nones >= 2:
                                        break
                                    continue
                                nones = 0
                                got.extend(e.events if isinstance(e, events.PasteEvent) else [e])
                            out[mode] = got
                        finally:
                            ps.close()
                    case = {"burst": "%d x 'a' + %r + %r" % (lead, seq, tail), "paste_threshold": th}
                    acc.case(True, key=("stream", seq, lead, tail, th), sample=case)
                    acc.transitions += 3
                    # where the stream is cut is not prescribed here (without paste detection a sequence lying across the 1 024-byte
                    # read is reported in two parts, in every mode): the bytes mode's own cut is the reference for the other two
                    cut = out["bytes"]
                    if not all(isinstance(u, bytes) for u in cut) or b"".join(cut) != data:
                        acc.failure("C20:bytes_mode_does_not_return_the_bytes_of_each_keypress", case, "%d bytes in, keypresses %r ..." % (len(data), cut[-4:]))
                        continue
                    if cut != units:
                        acc.add("bursts_cut_by_the_read_boundary")
                    for mode, kn in (("curtsies", events.Keynames.CURTSIES), ("curses", events.Keynames.CURSES)):
                        want = [events.get_key([u[i : i + 1] for i in range(len(u))], "utf-8", keynames=kn, full=True) for u in cut]
                        if out[mode] != want:
                            j = next((i for i, (x, y) in enumerate(zip(out[mode], want)) if x != y), min(len(want), len(out[mode])))
                            acc.failure("C20:modes_cut_the_stream_at_different_places", dict(case, mode=mode), "%d keypresses (bytes mode: %d); keypress %d: %r, expected %r" % (len(out[mode]), len(cut), j, out[mode][j : j + 3], want[j : j + 3]))
    return acc.export()


def run(ctx):
    from curtsies.configfile_keynames import keymap

    rep = Report()
    for d in ctx.pmap(c03.shard_tree, c03.tree_shards(ctx.tier, ctx.seed), chunksize=1):
        rep.merge(d, "decision_tree")
    rep.merge(c03.shard_lead_only((ctx.tier, ctx.seed)), "decision_tree")
    nodes = rep.extra.get("nodes", 0)
    for d in ctx.pmap(c03.shard_history, [(ctx.tier, ctx.seed, i) for i in range(4)]):
        rep.merge(d, "history_independence")
    # a decoding that depends on what was decoded before cannot be consistent between the modes for every history
    rep.fail = {("C20:decoding_depends_on_history" if k == "C03:decoding_depends_on_history" else k): v for k, v in rep.fail.items()}
    rep.fail = {k: v for k, v in rep.fail.items() if k.startswith("C20:") or k.startswith("harness:")}
    ref = D.Ref()
    acc = Acc(seed=ctx.seed)
    for k in sorted(ref.CURSES):
        acc.case(True, key=("curses", k), sample={"curses_key": k.hex()})
        if k not in ref.CURTSIES:
            acc.failure("C20:curses_name_without_curtsies_name", {"seq": k.hex()}, "%r" % ref.CURSES[k])
    produced = D.collect_names(ref)
    acc.add("producible_names", len(produced))
    for name in config_names():
        case = {"config_key": name}
        acc.case(True, key=("cfg", name), sample=case)
        acc.transitions += 1
        try:
            got = keymap[name]
        except Exception as ex:  # noqa
            acc.failure("C20:valid_config_name_raises:" + type(ex).__name__, case, repr(ex))
            continue
        if not isinstance(got, tuple) or not got:
            acc.failure("C20:valid_config_name_maps_to_nothing", case, repr(got))
            continue
        for n in got:
            if n not in produced:
                acc.failure("C20:config_name_maps_to_a_name_the_decoder_never_produces", dict(case, name=n), "%r -> %r" % (name, got))
        # ... and they must be the names of THAT key: what the decoder calls ESC + character / the 8-bit Meta byte for M-<character>,
        # the control byte for C-<letter> (the decoder itself is the model; upper and lower case are different keys)
        from curtsies import events as _ev

        want = None
        if name.startswith("M-") and len(name) == 3:
            ch = name[2]
            want = {_ev.get_key([b"\x1b", ch.encode()], "utf-8", keynames=_ev.Keynames.CURTSIES, full=True), _ev.get_key([bytes([ord(ch) | 0x80])], "latin-1", keynames=_ev.Keynames.CURTSIES, full=True)}
        elif name.startswith("C-") and len(name) == 3:
            want = {_ev.get_key([bytes([ord(name[2].upper()) & 0x1F])], "utf-8", keynames=_ev.Keynames.CURTSIES, full=True)}
        if want is not None and set(got) != want:
            acc.failure("C20:config_name_maps_to_another_key", case, "%r -> %r, the decoder calls that key %r" % (name, got, sorted(want)))
    # the mapping of a name is a function of the name: after thousands of other accepted lookups on the same keymap object (and on a
    # second KeyMap object) every name must still map to what it mapped to at first
    from curtsies.configfile_keynames import KeyMap

    first = {}
    for name in config_names():
        try:
            first[name] = keymap[name]
        except Exception as ex:  # noqa
            first[name] = ("exc", type(ex).__name__)
    flood = ["M-" + a + b for a in string.ascii_lowercase + string.digits for b in string.ascii_lowercase + "-+"] + ["C-" + a + b for a in "abcxyz" for b in string.ascii_lowercase]
    flood += ["F%s%d" % ("0" * z, i) for z in range(1, 6) for i in range(1, 40)] + ["F%d" % i for i in range(13, 400)]
    other = KeyMap()
    for km, label in ((keymap, "the module's keymap object"), (other, "a second KeyMap object")):
        seen = {}
        for rnd in range(2):
            for name in flood:
                try:
                    r = km[name]
                except Exception as ex:  # noqa
                    r = ("exc", type(ex).__name__)
                acc.transitions += 1
                if seen.setdefault(name, r) != r:
                    acc.failure("C20:config_name_mapping_depends_on_history", {"config_key": name, "keymap": label}, "first %r, later %r" % (seen[name], r))
                    break
        for order in (config_names(), config_names()[::-1]):
            for name in order:
                case = {"config_key": name, "keymap": label, "after_other_lookups": len(flood) * 2}
                acc.case(True, key=("cfg_again", label, name, order[0]), sample=case)
                acc.transitions += 1
                try:
                    r = km[name]
                except Exception as ex:  # noqa
                    r = ("exc", type(ex).__name__)
                if r != first[name]:
                    acc.failure("C20:config_name_mapping_depends_on_history", case, "at first %r, now %r" % (first[name], r))
    acc.case(True, key=("cfg", ""))
    try:
        if keymap[""] != ():
            acc.failure("C20:unbound_key_maps_to_something", {"config_key": ""}, repr(keymap[""]))
    except Exception as ex:  # noqa
        acc.failure("C20:unbound_key_raises:" + type(ex).__name__, {"config_key": ""}, repr(ex))
    rep.merge(acc, "tables_and_config_names")
    for d in ctx.pmap(shard_streams, [(ctx.tier, ctx.seed, i, 16) for i in range(16)]):
        rep.merge(d, "three_modes_through_input_across_the_read_boundary")
    rep.states_override = nodes
    rep.validated = rep.n
    rep.exhaustive = False
    rep.rule = (
        "the decoder decision tree as in C03 (complete for ascii, latin-1, utf-8 lead bytes < 0x%s; representatives above), three naming modes in "
        "lock-step at every state for both values of full; every entry of both tables; %d valid configuration names (C-a..z, C-[ C-\\\\ C-] C-^ C-_, "
        "M-<every printable non-space ASCII>, F1-F12) and the unbound key. non-trivial = state on a valid stream / every table or config entry"
        % ("F8" if ctx.thorough else "F0", len(config_names()))
    )
    rep.assumptions = ["upper-case C-A and 'M- ' are not documented spellings and are not checked", "R (producible names) is collected from the complete latin-1 and utf-8 trees under ESC-initial and single-byte states"]
    return rep
