"""C09 - splice replaces exactly the requested range and nothing else (DESIGN.md section 4, C09).

Space  : every run layout of U_layout(k, L, P3) (empty runs and the zero-run value included) x 7 replacement
         values x every 0 <= start <= end <= len+2 and end omitted; append(x) for the same pairs.
Oracle : cells(result) == cells(f)[:start] + cells(new) + cells(f)[end:]; f's snapshot unchanged.
"""
from mc import cells as C
from mc import repeat
from mc.runner import Acc, Report

LEVEL = "model_checking"
NSHARDS = 64

NEW_SPECS = (
    ("str", ""),
    ("str", "X"),
    ("str", "XY"),
    ("fmt", (("X", (("fg", 32),)),)),
    ("fmt", (("X", (("fg", 32),)), ("Y", (("bg", 44), ("underline", True))))),
    ("fmt", (("", ()), ("X", (("fg", 32),)), ("", (("bold", True),)))),
    ("fmt", ()),
    ("str", "\u0301"),
    ("str", "x\x9b1my"),
    ("fmt", (("\u0301", (("fg", 32),)),)),
)


def bounds(tier):
    return (4, 3) if tier == "thorough" else (3, 2)


def make_new(ns):
    kind, v = ns
    return v if kind == "str" else C.build(v)


def check_one(acc, spec, f, fcells, snap, ni, new, ncells, start, end):
    """One splice; returns after recording a failure (if any)."""
    e = start if end is None else end
    expected = fcells[:start] + ncells + fcells[e:]
    case = {"f": C.show_spec(spec), "new": NEW_SPECS[ni], "start": start, "end": end}
    try:
        r = f.splice(new, start) if end is None else f.splice(new, start, end)
        got = C.cells(r)
        rs, rl = r.s, len(r)
    except Exception as ex:  # noqa
        acc.failure("C09:splice_raises:" + type(ex).__name__, case, repr(ex))
        return
    if got != expected:
        acc.failure("C09:splice_result", case, "got %r expected %r" % (got, expected))
    elif rs != "".join(c for c, _ in expected) or rl != len(expected):
        acc.failure("C09:splice_text_or_len", case, "s=%r len=%r" % (rs, rl))
    if C.snapshot(f) != snap:
        acc.failure("C09:operand_changed", case, "f changed by splice")
    acc.state(hash(tuple(got)))


def shard(args):
    tier, seed, idx = args
    k, L = bounds(tier)
    acc = Acc(seed=seed)
    news = [make_new(ns) for ns in NEW_SPECS]
    news_cells = [C.cells(n) for n in news]
    news_snap = [None if isinstance(n, str) else C.snapshot(n) for n in news]
    universe = [(s_, None) for s_ in C.layouts(k, L)] + [(s_, how) for s_ in C.layouts(2, 2) for how in C.REPEAT_HOWS]
    # combining and double-width characters, also as runs of their own
    for text in ("e\u0301", "\u0301e", "Ｅ\u0301a", "a\u0301\u0301", "\u0301"):
        universe += [(s_, None) for s_ in C.cuts(text, max_runs=3)]
    for i, (spec0, how) in enumerate(universe):
        if i % NSHARDS != idx:
            continue
        if how is None:
            spec = spec0
            f = C.build(spec)
            want_cells = C.spec_cells(spec)
        else:
            # values whose runs are the same objects repeated (f*2, f+f, join)
            f, want_cells = C.build_repeated(spec0, how)
            spec = tuple(spec0) + (("<" + how + ">", ()),)
        fcells = C.cells(f)
        if fcells != want_cells:
            acc.failure("harness:universe_build", {"f": C.show_spec(spec)}, "built value differs from its spec")
            continue
        snap = C.snapshot(f)
        n = len(fcells)
        divides = set()
        pos = 0
        for ch in f.chunks[:-1]:
            pos += len(ch.s)
            divides.add(pos)
        for ni, new in enumerate(news):
            for start in range(0, n + 3):
                for end in [None] + list(range(start, n + 3)):
                    e = start if end is None else end
                    nontriv = (0 < start < n) or any(abs(start - d) <= 1 or abs(e - d) <= 1 for d in divides)
                    acc.case(nontriv, key=(spec, ni, start, end), sample=lambda: {"f": C.show_spec(spec), "new": NEW_SPECS[ni], "start": start, "end": end})
                    acc.transitions += 1
                    check_one(acc, spec, f, fcells, snap, ni, new, news_cells[ni], start, end)
            # the same object spliced again in a non-monotone order (state kept on the object between calls would show here)
            ranges = [(st, en) for st in range(0, n + 3) for en in [None] + list(range(st, n + 3))]
            for start, end in ranges[::-1][::2] + ranges[3::5]:
                acc.transitions += 1
                check_one(acc, spec, f, fcells, snap, ni, new, news_cells[ni], start, end)
            # append(x) == splice at the end
            case = {"f": C.show_spec(spec), "new": NEW_SPECS[ni], "op": "append"}
            acc.case(True, key=(spec, ni, "append"))
            acc.transitions += 1
            try:
                got = C.cells(f.append(new))
                if got != fcells + news_cells[ni]:
                    acc.failure("C09:append_result", case, "got %r" % (got,))
            except Exception as ex:  # noqa
                acc.failure("C09:append_raises:" + type(ex).__name__, case, repr(ex))
            if C.snapshot(f) != snap:
                acc.failure("C09:operand_changed", case, "f changed by append")
            if news_snap[ni] is not None and C.snapshot(new) != news_snap[ni]:
                acc.failure("C09:operand_changed", case, "new changed")
    return acc.export()


def shard_exotic(args):
    """Long / many-run / unusual-character values: splice at every pair of boundary points with every replacement value."""
    tier, seed, idx = args
    acc = Acc(seed=seed)
    specs = C.exotic_specs() + C.huge_specs() + C.scale_specs(tier == "thorough")
    nsmall = len(C.exotic_specs())
    news = [make_new(ns) for ns in NEW_SPECS]
    news_cells = [C.cells(n) for n in news]
    for si in range(idx, len(specs), 48):
        spec = specs[si]
        f = C.build(spec)
        fcells = C.spec_cells(spec)
        if C.cells(f) != fcells:
            acc.failure("harness:universe_build", {"f": C.show_spec(spec)}, "")
            continue
        snap = C.snapshot(f)
        n = len(fcells)
        pts = [p_ for p_ in (C.boundary_points(spec) if si < nsmall else C.few_points(spec, 14)) if 0 <= p_ <= n + 2]
        for ni in (1, 3, 4, 0, 6):
            for start in pts:
                for end in [None] + [e for e in pts if e >= start]:
                    acc.case(True, key=("x", si, ni, start, end), sample=lambda: {"f": C.show_spec(spec), "new": NEW_SPECS[ni], "start": start, "end": end})
                    acc.transitions += 1
                    check_one(acc, spec, f, fcells, snap, ni, news[ni], news_cells[ni], start, end)
    return acc.export()


def run(ctx):
    rep = Report()
    repeat.run_into(ctx, rep, "C09")
    for d in ctx.pmap(shard_exotic, [(ctx.tier, ctx.seed, i) for i in range(48)]):
        rep.merge(d, "long_and_exotic_values")
    k, L = bounds(ctx.tier)
    for d in ctx.pmap(shard, [(ctx.tier, ctx.seed, i) for i in range(NSHARDS)]):
        rep.merge(d)
    rep.validated = rep.n  # every case executes the real FmtStr.splice / append
    rep.rule = (
        "every FmtStr of U_layout(k=%d runs, run length<=%d, palette P3, distinct characters, empty runs and the "
        "zero-run value included) x %d replacement values (str/FmtStr, empty, multi-run, with empty runs, zero-run) x every "
        "0<=start<=end<=len+2 and end omitted, plus append; cases are distinct by construction of the enumeration; non-trivial = "
        "start strictly inside the text, or start/end within one position of an interior run boundary; states = distinct "
        "result cell lists" % (k, L, len(NEW_SPECS))
    )
    rep.bounds = {"max_runs": k, "max_run_len": L, "palette": 3, "new_values": len(NEW_SPECS)}
    rep.assumptions = ["alpha (cells from .chunks) is tied to the displayed string by C01's cross-check"]
    return rep


def replay(ctx, case):
    acc = Acc()
    spec = tuple((t, tuple(sorted(a.items()))) for t, a in case["f"])
    if spec and spec[-1][0].startswith("<") and spec[-1][0].endswith(">"):
        f = C.build_repeated(spec[:-1], spec[-1][0][1:-1])[0]
    else:
        f = C.build(spec)
    ns = case["new"]
    ns = (ns[0], ns[1] if ns[0] == "str" else tuple((t, tuple(map(tuple, a))) for t, a in ns[1]))
    ni = NEW_SPECS.index(ns)
    new = make_new(ns)
    if case.get("op") == "append":
        got = C.cells(f.append(new))
        return [] if got == C.cells(f) + C.cells(new) else [("C09:append_result", got)]
    check_one(acc, spec, f, C.cells(f), C.snapshot(f), ni, new, C.cells(new), case["start"], case["end"])
    return [(s, e["cases"][0]["message"]) for s, e in acc.fail.items()]
