"""C18 - cursor position query parses the report exactly; movement is conserved (DESIGN.md 4/C18).

(a) exhaustive enumeration for get_cursor_position on a constructed CursorAwareWindow with scripted streams: reported (row, col) in
    {1,2,9,10,99,100,12345}^2, 7-bit and 8-bit CSI; preceding input = every sequence of <= 2 pieces from a pool of keypresses, escape
    sequences and look-alike fragments (those that would complete a report early are inherently ambiguous and filtered out); trailing input
    in {none, 'x', a second complete report}; extra_bytes_callback present / absent; and, deviation-bounded over the reads, every placement
    of <= 2 failing reads (OSError) among the read attempts.
    Oracle: return == (row-1, col-1); the callback received exactly the preceding input, once, in order (ValueError when there is no callback
    and something preceded); number of characters consumed == len(preceding) + len(report).
(b) explicit-state search over the bookkeeping of get_cursor_vertical_diff: states reached by real renders on a reference terminal, then
    query(r) with the environment answering any row, and query(r1) during which a nested get_cursor_vertical_diff() fires inside the k-th read
    and the re-query is answered r2.  Oracle for every outermost call: change of top_usable_row + return value == (row finally reported) -
    (row the cursor was known to be on before the call); the nested call returns 0.
"""
import itertools
import os
import re
import sys

from mc.runner import Acc, Report
from mc import repeat
from mc import winharness as WH
from mc.term import Term

LEVEL = "model_checking"

PIECES = ("a", "\n", "\x1b", "\x1b[A", "\x1b[1;5", "\x1b[3;4", "12", ";", "R", "7;", "\x9b", "é")
VALUES = (1, 2, 9, 10, 99, 100, 12345)
REPORT_RE = re.compile("(\x1b\\[|\x9b)[0-9]+;[0-9]+R")


class Sink:
    h, w = 24, 80

    def feed(self, s):
        self.last = s


class ScriptedIn:
    def __init__(self, fd, text, fail_at=(), encoding="utf-8", hook=None):
        self.fd = fd
        self.text = list(text)
        self.pos = 0
        self.attempt = 0
        self.fail_at = set(fail_at)
        self.encoding = encoding
        self.hook = hook
        self.fail_pattern = None
        self.streak = 0

    def fileno(self):
        return self.fd

    def read(self, n=1):
        self.attempt += 1
        if self.hook is not None:
            self.hook(self.attempt)
        if self.attempt in self.fail_at or (self.fail_pattern is not None and self.fail_pattern(self.attempt, self.pos)):
            raise OSError(5, "injected read error")
        if self.pos >= len(self.text):
            raise RuntimeError("read past the scripted input (the report was not recognised)")
        c = self.text[self.pos]
        self.pos += 1
        return c


_PROXY = None


def proxy():
    global _PROXY
    if _PROXY is None:
        _PROXY = WH.Proxy()
        _PROXY.set_size(24, 80)
        _PROXY.term = Sink()
    return _PROXY


def precedings():
    out = [""]
    for n in (1, 2):
        for ps in itertools.product(PIECES, repeat=n):
            out.append("".join(ps))
    seen, res = set(), []
    for p in out:
        if p not in seen:
            seen.add(p)
            res.append(p)
    return res


def ambiguous(pre, report):
    """A complete look-alike report appears before the real one ends."""
    return REPORT_RE.search(pre + report[:-1]) is not None


def pattern_fn(name):
    """Long failure patterns: 'any number of times before succeeding'."""
    if name is None:
        return None
    kind, k = name
    state = {"pos": -1, "n": 0}

    def fn(attempt, pos):
        if kind == "before_each":  # k failures before every successful read
            if state["pos"] != pos:
                state["pos"], state["n"] = pos, 0
            if state["n"] < k:
                state["n"] += 1
                return True
            return False
        if kind == "first":  # k failures before the first successful read
            return attempt <= k
        if kind == "middle":  # k failures after the third successful read
            if pos == 3 and state["n"] < k:
                state["n"] += 1
                return True
            return False
        return False

    return fn


QUERY_LIMIT_S = 20
SHORT_INPUT = 64  # the limit applies to short inputs only: the unchanged query is cubic in the amount of type-ahead, so the long-input family (up to 1 500 characters) legitimately takes many seconds per query on a loaded machine
_EXPIRED = []  # queries of this worker that ran into the limit: after two, the long failure patterns are not tried again


def check_query(acc, pre, report, row, col, trailing, with_cb, fail_at, case, pattern=None):
    from curtsies.window import CursorAwareWindow

    px = proxy()
    got_extra = []
    inp = ScriptedIn(px.slave, pre + report + trailing, fail_at)
    inp.fail_pattern = pattern_fn(pattern)
    cb = (lambda b: got_extra.append(b)) if with_cb else None
    win = CursorAwareWindow(out_stream=px, in_stream=inp, extra_bytes_callback=cb)
    try:
        # one query reads a few dozen characters; a changed library that re-reads or re-scans without bound is a failed query,
        # not a hung check (the limit is far above anything the unchanged code needs, also on a loaded machine)
        with repeat._TimeLimit(QUERY_LIMIT_S if len(pre) + len(report) + len(trailing) <= SHORT_INPUT else 0):
            res = win.get_cursor_position()
        exc = None
    except ValueError as ex:
        res, exc = None, ex
    except repeat._TimeLimit.Expired:
        _EXPIRED.append(1)
        acc.failure("C18:query_does_not_finish", case, "no answer after %d s although the whole report had been supplied" % QUERY_LIMIT_S)
        return
    except Exception as ex:  # noqa
        acc.failure("C18:query_raises:" + type(ex).__name__, case, repr(ex))
        return
    if getattr(px.term, "last", None) != "\x1b[6n":
        acc.failure("C18:query_not_sent", case, repr(getattr(px.term, "last", None)))
    if pre and not with_cb:
        if exc is None:
            acc.failure("C18:preceding_input_dropped_silently", case, "returned %r, no callback, preceding %r" % (res, pre))
        acc.outcome("ValueError")
    else:
        if exc is not None:
            acc.failure("C18:query_raises:ValueError", case, repr(exc))
            return
        if res != (row - 1, col - 1):
            acc.failure("C18:wrong_position", case, "returned %r, terminal reported row %d col %d" % (res, row, col))
        want = [pre.encode("utf-8")] if pre else []
        if got_extra != want:
            acc.failure("C18:extra_bytes", case, "callback got %r, preceding input was %r" % (got_extra, want))
        acc.outcome("position")
    if inp.pos != len(pre) + len(report):
        acc.failure("C18:consumed_wrong_amount", case, "consumed %d characters, preceding+report = %d" % (inp.pos, len(pre) + len(report)))


class Collector(list):
    """A callable that is falsy while empty (a collector object used as extra_bytes_callback)."""

    def __call__(self, data):
        self.append(data)


def shard_long(args):
    """Long input ahead of the report: every length 0..420, the neighbourhoods of 500 / 512 / 720 / 1 000 / 1 024 and a sparser sweep up to 1 500, both CSI forms, with and without escape
    sequences inside; and a callback object that is callable but falsy."""
    tier, seed, idx = args
    from curtsies.window import CursorAwareWindow

    acc = Acc(seed=seed)
    lengths = list(range(0, 421)) + ([512, 719, 720, 721, 1000, 1024, 1100] if tier != "thorough" else list(range(421, 1500, 3)))
    # the neighbourhood of round sizes (the query is cubic in the amount of type-ahead, so only ESC-free filler here)
    near = sorted({m + d for m in (500, 512, 720, 1000, 1024) for d in range(-9, 2)} - set(lengths))
    for li, L in enumerate(lengths + near):
        if li % 16 != idx:
            continue
        for filler in (("a", "ab\x1b[A") if li < len(lengths) else ("a",)):
            pre = (filler * (L // len(filler) + 1))[:L]
            if pre.endswith("\x1b") or pre.endswith("\x1b["):
                pre = pre[: pre.rfind("\x1b")] + "zz"[: len(pre) - pre.rfind("\x1b")]
            for csi in ("\x1b[", "\x9b"):
                report = "%s12;7R" % csi
                if ambiguous(pre, report):
                    continue
                case = {"preceding_length": len(pre), "filler": filler, "report": report, "trailing": "x", "callback": True}
                acc.case(True, key=("long", L, filler, csi), sample=case)
                acc.transitions += 1
                check_query(acc, pre, report, 12, 7, "x", True, (), case)
    if idx == 0:
        px = proxy()
        for pre in ("", "a", "\x1b[A", "xy\n"):
            for csi in ("\x1b[", "\x9b"):
                col = Collector()
                inp = ScriptedIn(px.slave, pre + csi + "3;4R" + "tail")
                win = CursorAwareWindow(out_stream=px, in_stream=inp, extra_bytes_callback=col)
                case = {"preceding": pre, "report": csi + "3;4R", "callback": "callable collector that is falsy while empty"}
                acc.case(True, key=("collector", pre, csi), sample=case)
                acc.transitions += 1
                try:
                    res = win.get_cursor_position()
                except Exception as ex:  # noqa
                    acc.failure("C18:query_raises:" + type(ex).__name__, case, repr(ex))
                    continue
                if res != (2, 3) or list(col) != ([pre.encode("utf-8")] if pre else []) or inp.pos != len(pre) + len(csi) + 4:
                    acc.failure("C18:extra_bytes", case, "returned %r, collector got %r, consumed %d" % (res, list(col), inp.pos))
    return acc.export()


def shard_a(args):
    tier, seed, idx, nshards = args
    acc = Acc(seed=seed, sample_stride=2999)
    thorough = tier == "thorough"
    pres = precedings()
    second = "\x1b[7;7R"
    i = 0
    for pre in pres:
        for csi in ("\x1b[", "\x9b"):
            for row in VALUES:
                for col in VALUES:
                    i += 1
                    if i % nshards != idx:
                        continue
                    report = "%s%d;%dR" % (csi, row, col)
                    if ambiguous(pre, report):
                        acc.add("ambiguous_filtered")
                        continue
                    for trailing in ("", "x", second):
                        for with_cb in (True, False):
                            case = {"preceding": pre, "report": report, "trailing": trailing, "callback": with_cb, "failing_reads": []}
                            acc.case(bool(pre), key=(pre, report, trailing, with_cb), sample=case)
                            acc.transitions += 1
                            check_query(acc, pre, report, row, col, trailing, with_cb, (), case)
                    # long failure patterns ("any number of times")
                    if ((row, col) == (2, 10) or (thorough and row == col)) and len(_EXPIRED) < 2:
                        for pat in (("before_each", 1), ("before_each", 5), ("first", 150), ("middle", 150), ("before_each", 40), ("first", 1500), ("middle", 1200), ("first", 12000), ("middle", 9000)):
                            case = {"preceding": pre, "report": report, "trailing": "x", "callback": True, "failing_reads": list(pat)}
                            acc.case(True, key=(pre, report, pat), sample=case)
                            acc.transitions += 1
                            check_query(acc, pre, report, row, col, "x", True, (), case, pattern=pat)
                    # failing reads: every placement of <= 2 failures among the attempts (deviation bound 2), one report shape per preceding
                    if (row, col) in ((1, 1), (10, 100)) or thorough:
                        nreads = len(pre) + len(report)
                        limit = nreads + 2
                        placements = [(a,) for a in range(1, limit + 1)] + [(a, b) for a in range(1, limit + 1) for b in range(a + 1, min(a + 3, limit + 2))]
                        for fail_at in placements:
                            case = {"preceding": pre, "report": report, "trailing": "x", "callback": True, "failing_reads": list(fail_at)}
                            acc.case(True, key=(pre, report, fail_at), sample=case)
                            acc.transitions += 1
                            check_query(acc, pre, report, row, col, "x", True, fail_at, case)
    return acc.export()


# ---------------------------------------------------------------------------------------------------------------------------------
# (b) bookkeeping


def shard_b(args):
    tier, seed, h, w, k0, depth = args
    from mc.props import c07

    acc = Acc(seed=seed, sample_stride=1999)
    world = c07.World(False, True)
    t0 = Term(h, w)
    for i in range(k0):
        t0.feed("%d\r\n" % i)
    st0 = world.enter(t0)
    base = {"size": [h, w], "preexisting_lines": k0}
    thorough = tier == "thorough"

    def actions(step):
        out = []
        for n in range(0, h + 2):
            for cr in sorted({0, max(0, n - 1)}):
                out.append(("render", n, cr))
        for r in range(h):
            out.append(("query", r))
        ks = (1, 3, 6) if thorough or step == 0 else (2,)
        for r1 in range(h):
            for r2 in range(h):
                for k in ks:
                    out.append(("nested", r1, k, r2))
                if step <= 1 and r1 != r2:
                    for m_ in (2, 7, 8, 9, 12, 40):
                        out.append(("nested", r1, ("every", m_), r2))
        # a nested call (signal handler) arriving at the k-th asynchronous point of the outer call - not only inside a read
        if step <= 1 or thorough:
            for r1 in range(h):
                for r2 in sorted({0, h - 1, (r1 + 1) % h}):
                    for k in range(1, 400):
                        out.append(("nested_at_point", r1, k, r2))
        return out

    exhausted_box = []

    def do_query(act, case):
        """Runs one outermost get_cursor_vertical_diff on the loaded world."""
        win = world.win
        term = world.proxy.term
        before_top = win.top_usable_row
        known = win._last_cursor_row
        nested_results = []
        point_hook = None
        if act[0] == "query":
            term.r = act[1]
            final = act[1]
            hook = None
        elif act[0] == "nested_at_point":
            _, r1, k, r2 = act
            term.r = r1
            final = r2
            hook = None
            pstate = {"n": 0, "fired": False}
            cdir = os.path.dirname(os.path.abspath(sys.modules["curtsies"].__file__)) + os.sep

            def point_hook(frame, event, arg):
                # a signal handler can run wherever CPython checks for signals while the outer call is active - also inside the
                # functions it calls in other modules (e.g. logging)
                if pstate["fired"] or event not in ("call", "c_return"):
                    return
                pstate["n"] += 1
                if pstate["n"] == k:
                    pstate["fired"] = True
                    sys.setprofile(None)
                    term.r = r2  # the content moved again just before the nested call
                    nested_results.append(win.get_cursor_vertical_diff())
        else:
            _, r1, k, r2 = act
            term.r = r1
            final = r2
            state = {"fired": False}

            if isinstance(k, tuple):
                # ("every", m): the first m queries of this call are EACH interrupted by a nested call, the content moving every time
                m_ = k[1]
                final = r2 if m_ % 2 else r1
                state.update(rounds=0, prev=0)

            def hook(attempt):
                if isinstance(k, tuple):
                    qlen = len(world.inp.q)
                    if qlen > state["prev"]:  # a new report has arrived: a new query of the outer call
                        state["rounds"] += 1
                        if state["rounds"] <= k[1]:
                            nested_results.append(win.get_cursor_vertical_diff())
                            term.r = r2 if state["rounds"] % 2 else r1
                    state["prev"] = qlen - 1
                    return
                if attempt == k and not state["fired"]:
                    state["fired"] = True
                    nested_results.append(win.get_cursor_vertical_diff())
                    term.r = r2  # the content moved again; the re-query will see r2

        old_read = world.inp.read

        def read(n=1):
            world.inp.reads += 1
            if hook is not None:
                hook(world.inp.reads)
            if not world.inp.q:
                raise RuntimeError("no report available")
            return world.inp.q.pop(0)

        world.inp.reads = 0
        world.inp.read = read
        try:
            if point_hook is not None:
                sys.setprofile(point_hook)
            ret = win.get_cursor_vertical_diff()
        except Exception as ex:  # noqa
            acc.failure("C18:vertical_diff_raises:" + type(ex).__name__, case, repr(ex))
            return False
        finally:
            sys.setprofile(None)
            world.inp.read = old_read
        if act[0] == "nested_at_point" and not nested_results:
            exhausted_box.append((act[1], act[3]))
        if act[0] in ("nested", "nested_at_point") and not nested_results:
            final = act[1]  # the hook position lay beyond this query: plain query answered r1
        if act[0] == "nested_at_point" and nested_results:
            # a nested call that arrives outside the protected query is an ordinary call of its own: both calls together must
            # account for the whole movement exactly once
            ret = ret + sum(nested_results)
            nested_results = []
        if any(x != 0 for x in nested_results):
            acc.failure("C18:nested_call_did_not_return_zero", case, repr(nested_results))
            return False
        dtop = win.top_usable_row - before_top
        if known is not None:
            want = final - known
        else:
            # nothing rendered yet: the first report only establishes where the cursor is; movement observed between that report and
            # a re-query (nested call) is real movement and must be accounted for
            want = (final - act[1]) if (act[0] == "nested" and nested_results) else 0
            if act[0] == "nested_at_point":
                want = None  # nothing rendered yet: no reference row; only the flags are checked
        if want is not None and dtop + ret != want:
            acc.failure("C18:movement_not_conserved", case, "top_usable_row changed by %d, returned %d, cursor moved from %r to %r" % (dtop, ret, known, final))
            return False
        if win.in_get_cursor_diff:
            acc.failure("C18:reentrancy_flag_left_set", case, "")
            return False
        if win._last_cursor_row != final:
            acc.failure("C18:last_cursor_row_not_updated", case, "%r != %r" % (win._last_cursor_row, final))
            return False
        return True

    def rec(st, hist, step):
        if step >= depth:
            return
        exhausted = set()
        for act in actions(step):
            if act[0] == "nested_at_point" and (act[1], act[3]) in exhausted:
                continue  # the outer call has fewer asynchronous points than k
            world.load(st)
            case = dict(base, history=hist, action=list(act))
            acc.case(act[0] != "render", key=(h, w, k0, tuple(map(tuple, hist)), act), sample=case)
            acc.transitions += 1
            if act[0] == "render":
                _, n, cr = act
                arr = c07.make_array(h, w, n, (1,), step)
                try:
                    world.win.render_to_terminal(c07.build_rows(arr), (cr, 0))
                except Exception as ex:  # noqa
                    acc.failure("C18:render_raises:" + type(ex).__name__, case, repr(ex))
                    continue
            else:
                del exhausted_box[:]
                ok = do_query(act, case)
                exhausted.update(exhausted_box)
                if not ok:
                    continue
            new = world.save()
            acc.state(hash((h, w, k0, WH.canon_window(new[0]), new[1].r)))
            if act[0] == "nested_at_point" or (act[0] == "nested" and isinstance(act[2], tuple)):
                continue  # explored as a last step only (their parameters already multiply the menu)
            rec(new, hist + [list(act)], step + 1)

    rec(st0, [], 0)
    world.close()
    return acc.export()


def run(ctx):
    rep = Report()
    ns = 64
    for d in ctx.pmap(shard_a, [(ctx.tier, ctx.seed, i, ns) for i in range(ns)]):
        rep.merge(d, "query_parsing")
    for d in ctx.pmap(shard_long, [(ctx.tier, ctx.seed, i) for i in range(16)]):
        rep.merge(d, "long_preceding_input")
    shards = []
    for (h, w) in ((3, 2), (4, 2)):
        for k0 in range(0, h):
            shards.append((ctx.tier, ctx.seed, h, w, k0, 3))
    for d in ctx.pmap(shard_b, shards):
        rep.merge(d, "vertical_diff_bookkeeping")
    rep.validated = rep.n
    rep.rule = (
        "(a) %d preceding inputs (all sequences of <=2 pieces from %d pieces) x 2 CSI forms x 49 reported positions, minus the inherently "
        "ambiguous ones, x 3 trailing inputs x callback present/absent, plus every placement of <=2 failing reads for selected report shapes; "
        "(b) all histories of depth 3 over renders (0..h+1 rows), queries answered with any row, and queries with a nested call fired inside "
        "the k-th read and a re-query answered with any row, from every starting top_usable_row on 3- and 4-row terminals. non-trivial = "
        "something precedes the report / the action is a query. transitions = real get_cursor_position / get_cursor_vertical_diff / render calls"
        % (len(precedings()), len(PIECES))
    )
    rep.assumptions = [
        "complete look-alike reports preceding the real one are inherently ambiguous and filtered out",
        "blessed's own get_location path (only when both streams are the process's real stdio) is outside",
        "in (b) the environment's answer stands for any vertical content movement; the screen content itself is not compared (C07 does that)",
    ]
    return rep
