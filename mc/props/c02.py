"""C02 - FullscreenWindow: after every render the screen equals the array (DESIGN.md 4/C02).

Explicit-state BFS.  State = (window snapshot, reference terminal).  Initial: a fresh window entered on a terminal of size (h, w) whose
main screen holds marker text.  Actions: render(array, cursor_pos) for every array of the alphabet and two in-screen cursor positions;
resize to every other size of the size set with two junk fillings (from a bounded set of source states); exit (checked from every state).
The real FullscreenWindow.render_to_terminal runs on every transition; canonicalisation keeps every field that can influence the future.
"""
import itertools

from mc import cells as C
from mc.runner import Acc, Report
from mc.term import BLANK, Term, TermError
from mc import winharness as WH

LEVEL = "model_checking"
RED = (("fg", 31),)


def row_alphabet(w, full):
    """Rows as tuples of cells over {a, red a}. full: every length 0..w+1; else the 6-row sharp alphabet."""
    a, A = ("a", ()), ("a", RED)
    if full:
        out = []
        for n in range(0, w + 2):
            out.extend(itertools.product((a, A), repeat=n))
        return [tuple(r) for r in out]
    rows = [(), (a,), (A,), (a,) * w, (a,) * (w - 1) + (A,), (a,) * (w + 1)]
    seen, out = set(), []
    for r in rows:
        if r not in seen:
            seen.add(r)
            out.append(r)
    return out


def arrays(h, w, full):
    rows = row_alphabet(w, full)
    for n in range(0, h + 2):
        for combo in itertools.product(range(len(rows)), repeat=n):
            yield tuple(rows[i] for i in combo)


def build_row(cells_):
    from curtsies.formatstring import fmtstr

    f = None
    for key, grp in itertools.groupby(cells_, key=lambda c: c[1]):
        text = "".join(c for c, _ in grp)
        part = fmtstr(text, **dict(key))
        f = part if f is None else f + part
    return fmtstr("") if f is None else f


_ROWCACHE = {}


def build_array(arr):
    out = []
    for r in arr:
        v = _ROWCACHE.get(r)
        if v is None:
            v = _ROWCACHE[r] = build_row(r)
        out.append(v)
    return out


def variants(arr, w):
    """Input kinds for one array: list of FmtStr (always); unformatted rows as plain str; FSArray whose rows were put in with a[i] = row
    (declared width = terminal width, so an over-wide row exceeds it)."""
    out = ["fmt"]
    if arr and len(arr) <= 2 and any(all(a == () for _, a in r) and r for r in arr):
        out.append("str")
    if arr and len(arr) <= 2 and any(len(r) > w for r in arr):
        out.append("fsarray_rows")
    return out


def realise(arr, variant, w):
    from curtsies.formatstringarray import FSArray

    rows = build_array(arr)
    if variant == "str":
        return [("".join(c for c, _ in r) if all(a == () for _, a in r) else v) for r, v in zip(arr, rows)]
    if variant == "fsarray_rows":
        a = FSArray(len(rows), w)
        for i, v in enumerate(rows):
            a[i] = v
        return a
    return rows


def cursors(h, w):
    return [(0, 0), (h - 1, w - 1)] if (h, w) != (1, 1) else [(0, 0)]


MARK = "MARKER"


def marker_term(h, w):
    t = Term(h, w)
    for y in range(h):
        for x in range(w):
            t.main[y][x] = (MARK[(y * w + x) % len(MARK)], (("fg", 32),))
    t.r, t.c = h - 1, 0
    return t


def check_screen(acc, term, arr, cur, hide, case, sb_len):
    h, w = term.h, term.w
    if not term.in_alt:
        acc.failure("C02:left_alternate_screen", case, "")
        return False
    g = term.alt
    for y in range(h):
        for x in range(w):
            want = arr[y][x] if (y < len(arr) and x < len(arr[y])) else BLANK
            if g[y][x] != want:
                acc.failure(
                    "C02:screen_differs_from_array" + (":array_larger_than_terminal" if (len(arr) > h or any(len(r) > w for r in arr)) else ""),
                    case, "cell (%d,%d) shows %r, array says %r; screen %r" % (y, x, g[y][x], want, term.text_rows()))
                return False
    if (term.r, term.c) != tuple(cur):
        acc.failure("C02:cursor_position", case, "cursor at (%d,%d), asked for %r" % (term.r, term.c, cur))
        return False
    if len(term.scrollback) != sb_len or term.scrolls:
        acc.failure("C02:screen_scrolled", case, "scrolled %d time(s)" % term.scrolls)
        return False
    if term.visible != (not hide):
        acc.failure("C02:cursor_visibility", case, "visible=%r with hide_cursor=%r" % (term.visible, hide))
        return False
    if term.st.atts() != ():
        acc.failure("C02:graphic_state_left_set", case, "%r" % (term.st.atts(),))
        return False
    return True


class World:
    """One long-lived window per worker and configuration; terminal and window state are swapped on restore."""

    def __init__(self, hide):
        from curtsies.window import FullscreenWindow

        self.proxy = WH.Proxy()
        self.proxy.set_size(2, 2)
        self.hide = hide
        self.win = FullscreenWindow(out_stream=self.proxy, hide_cursor=hide)
        self.fresh = WH.snapshot(self.win)

    def load(self, state):
        snap, term = state
        WH.restore(self.win, snap)
        self.proxy.term = term.copy()
        self.proxy.set_size(term.h, term.w)
        return self.proxy.term

    def save(self):
        return (WH.snapshot(self.win), self.proxy.term)

    def initial(self, h, w):
        WH.restore(self.win, self.fresh)
        self.proxy.term = marker_term(h, w)
        self.proxy.set_size(h, w)
        # blessed's fullscreen() context manager is one-shot; the constructor makes one, the harness makes a new one per entry
        self.win.fullscreen_ctx = self.win.t.fullscreen()
        self.win.__enter__()
        return self.save()

    def arm_exit(self):
        """Gives the (restored) window a fullscreen context that is in its 'entered' state, as it is inside a real `with`."""
        keep = self.proxy.term
        self.proxy.term = Term(2, 2)
        ctx = self.win.t.fullscreen()
        ctx.__enter__()
        self.win.fullscreen_ctx = ctx
        self.proxy.term = keep


def canon(state):
    snap, term = state
    return (WH.canon_window(snap), term.canon())


def show_arr(arr):
    return ["".join(("A" if a else "a") for _, a in r) for r in arr]


def row_alphabet_named(w, kind):
    a, A = ("a", ()), ("a", RED)
    if kind == "full":
        return row_alphabet(w, True)
    if kind == "sharp":
        return row_alphabet(w, False)
    rows = [(), (a,) * w, (a,) * (w - 1) + (A,), (A,)]  # 'small'
    out = []
    for r in rows:
        if r not in out:
            out.append(r)
    return out


def arrays_for(h, w, kind):
    rows = row_alphabet_named(w, kind)
    for n in range(0, h + 2):
        for combo in itertools.product(range(len(rows)), repeat=n):
            yield tuple(rows[i] for i in combo)


# configurations: name -> {size: alphabet kind}, number of cursor positions
CONFIGS = {
    "quick": [
        ({(1, 1): "full", (1, 2): "full", (2, 1): "sharp", (2, 2): "sharp"}, 2),
        ({(3, 3): "small"}, 1),
        ({(2, 3): "small", (3, 2): "small"}, 2),
        ({(1, 6): "sharp", (4, 1): "small"}, 2),
    ],
    "thorough": [
        ({(1, 1): "full", (1, 2): "full", (2, 1): "full", (2, 2): "sharp"}, 2),
        ({(2, 2): "full"}, 1),
        ({(3, 3): "sharp"}, 1),
        ({(2, 3): "sharp", (3, 2): "sharp", (2, 2): "small"}, 2),
        ({(4, 4): "small"}, 1),
        ({(1, 3): "full", (3, 1): "full", (1, 1): "full"}, 2),
        ({(1, 8): "sharp", (5, 1): "small", (1, 6): "sharp"}, 2),
    ],
}


def replay(world, hist):
    """Re-executes a history (plain data) on the worker's window; returns the reached state."""
    st = None
    for step in hist:
        if step[0] == "init":
            st = world.initial(step[1], step[2])
        elif step[0] == "render":
            t = world.load(st)
            world.win.render_to_terminal(realise(step[1], step[3] if len(step) > 3 else "fmt", t.w), step[2])
            st = world.save()
        else:
            term = world.load(st)
            term.resize(step[1], step[2], step[3])
            st = (WH.snapshot(world.win), term)
    return st


def show_hist(hist):
    out = []
    for step in hist:
        if step[0] == "render":
            out.append(["render", show_arr(step[1]), list(step[2])] + ([step[3]] if len(step) > 3 and step[3] != "fmt" else []))
        else:
            out.append(list(step))
    return out


_WORLDS = {}


def expand(args):
    """One BFS level: for every given state (identified by its history, replayed on this worker's window) apply every action."""
    tier, seed, hide, ci, hists = args
    sizes, ncur = CONFIGS[tier][ci]
    acc = Acc(seed=seed + ci, sample_stride=7919)
    world = _WORLDS.get(hide)
    if world is None:
        world = _WORLDS[hide] = World(hide)
    found = {}
    for hist in hists:
        try:
            st = replay(world, hist)
        except Exception as ex:  # noqa
            acc.failure("harness:replay_diverges", {"history": show_hist(hist)}, repr(ex))
            continue
        acc.validated += 1
        snap, term0 = st
        h, w = term0.h, term0.w
        shown = show_hist(hist)
        # ---- exit from every state ------------------------------------------------------------------
        term = world.load(st)
        world.arm_exit()
        try:
            world.win.__exit__(None, None, None)
            m = marker_term(h, w)
            ok = (not term.in_alt) and term.visible and term.st.atts() == ()
            if ok and not any(hh[0] == "resize" for hh in hist):
                ok = term.main == m.main and (term.r, term.c) == (m.r, m.c)
            if not ok:
                acc.failure("C02:exit_does_not_restore_screen", {"hide_cursor": hide, "history": shown}, "in_alt=%r visible=%r main=%r" % (term.in_alt, term.visible, term.text_rows(term.main)))
        except Exception as ex:  # noqa
            acc.failure("C02:exit_raises:" + type(ex).__name__, {"hide_cursor": hide, "history": shown}, repr(ex))
        acc.transitions += 1
        # ---- renders ----------------------------------------------------------------------------------
        for arr in arrays_for(h, w, sizes[(h, w)]):
            for variant in variants(arr, w):
                for cur in cursors(h, w)[:ncur] if variant == "fmt" else cursors(h, w)[:1]:
                    term = world.load(st)
                    real = realise(arr, variant, w)
                    sb = len(term.scrollback)
                    term.scrolls = 0
                    case = {"hide_cursor": hide, "size": [h, w], "history": shown, "render": show_arr(arr), "cursor": list(cur), "given_as": variant}
                    nontriv = hist[-1][0] != "init" and not (hist[-1][0] == "render" and hist[-1][1] == arr)
                    acc.case(nontriv, key=(hide, hist, arr, cur, variant), sample=case)
                    acc.transitions += 1
                    try:
                        world.win.render_to_terminal(real, cur)
                    except TermError as ex:
                        acc.failure("C02:unknown_terminal_sequence", case, repr(ex))
                        continue
                    except Exception as ex:  # noqa
                        acc.failure("C02:render_raises:" + type(ex).__name__, case, repr(ex))
                        continue
                    if not check_screen(acc, term, arr, cur, hide, case, sb):
                        continue
                    k = hash(canon(world.save()))
                    if k not in found:
                        found[k] = hist + (("render", arr, cur, variant),)
        # ---- resizes (from a bounded set of source states) ----------------------------------------------
        last = (snap.get("_last_rendered_height"), snap.get("_last_rendered_width"))
        is_source = hist[-1][0] == "init" or (hist[-1][0] == "render" and show_arr(hist[-1][1]) in EXTRA_SOURCES)
        if is_source and len(sizes) > 1 and sum(1 for x in hist if x[0] == "resize") < 2:
            acc.add("resize_source_states")
            for (h2, w2) in sizes:
                if (h2, w2) == last or (h2, w2) == (h, w):
                    continue
                for junk in ("fill", "keep"):
                    term = world.load(st)
                    term.resize(h2, w2, junk)
                    acc.transitions += 1
                    k = hash(canon((WH.snapshot(world.win), term)))
                    if k not in found:
                        found[k] = hist + (("resize", h2, w2, junk),)
    return acc.export(), list(found.items())


EXTRA_SOURCES = [[], ["a"], ["A", ""], ["aa", "aa"], ["a", "aA"], ["aaa"], ["", "a"], ["aA", "aa", "a"]]
DEPTH_CAP = 7


def input_kinds(args):
    """The same array given as list of FmtStr, list with plain str rows, and FSArray must produce the same screen."""
    tier, seed, hide = args
    from curtsies.formatstringarray import fsarray

    acc = Acc(seed=seed)
    world = World(hide)
    for (h, w) in [(2, 2), (2, 3)]:
        st0 = world.initial(h, w)
        for arr in arrays_for(h, w, "full"):
            screens = []
            for kind in ("fmtstr", "str", "fsarray"):
                real = build_array(arr)
                if kind == "str":
                    real = [("".join(c for c, _ in r) if all(a == () for _, a in r) else v) for r, v in zip(arr, real)]
                elif kind == "fsarray":
                    try:
                        real = fsarray(real)
                    except Exception as ex:  # noqa
                        acc.failure("harness:fsarray", {"array": show_arr(arr)}, repr(ex))
                        continue
                term = world.load(st0)
                case = {"hide_cursor": hide, "size": [h, w], "render": show_arr(arr), "given_as": kind}
                acc.case(True, key=(hide, h, w, arr, kind), sample=case)
                acc.transitions += 1
                try:
                    world.win.render_to_terminal(real, (0, 0))
                except Exception as ex:  # noqa
                    acc.failure("C02:render_raises:" + type(ex).__name__, case, repr(ex))
                    continue
                check_screen(acc, term, arr, (0, 0), hide, case, 0)
                screens.append(term.canon())
            if len(set(screens)) > 1:
                acc.failure("C02:input_kinds_differ", {"render": show_arr(arr)}, "")
    world.proxy.close()
    return acc.export()


def wide_pool(w):
    """Rows for a terminal of w >= 24 columns: full-width rows ending in 0..w unformatted spaces, short rows, formatted tails."""
    def cellsof(text, att=()):
        return tuple((c, att) for c in text)

    pool = [cellsof("x" * w), cellsof("x" * w, RED), ()]
    for k in (0, 1, 3, w - 21, w - 20, w - 19, w - 1):
        pool.append(cellsof("p" * k + " " * (w - k)))
        pool.append(cellsof("p" * k))
    # single-column characters that str methods treat as whitespace but a terminal shows as themselves
    # rows wider than the terminal made of many short runs, the terminal's right edge falling inside a run
    over = "abcdefghijklmnopqrstuvwxyz0123456789ABCDEFGHIJKLMNOPQRSTUVWXYZ"[: w + 9] + "#" * max(0, w + 9 - 62)
    pool.append(tuple((c, (RED, (), (("bg", 44),))[((i + 1) // 2) % 3]) for i, c in enumerate(over)))
    pool.append(tuple((c, (RED, (), (("bold", True),))[(i // 3) % 3]) for i, c in enumerate(over[: w + 2])))
    pool.append(cellsof("pp\xa0"))
    pool.append(cellsof("\u1680"))
    pool.append(cellsof("q\u2003\u2003") + cellsof("\xa0", RED) + cellsof("\x85"[:0]))
    pool.append(cellsof("ppp") + cellsof(" " * (w - 3), RED))
    pool.append(cellsof("q" * (w - 22)) + cellsof(" ", RED) + cellsof(" " * 21))
    return pool


def sessions_wide(args):
    """Terminals of 24 and 31 columns: every ordered pair of arrays over wide_pool (a full-width row ending in 20+ plain spaces over
    earlier content, ...), directly and with a resize + junk in between."""
    tier, seed, hide, h, w, part, nparts = args
    acc = Acc(seed=seed, sample_stride=1999)
    world = World(hide)
    pool = wide_pool(w)
    arrs = [tuple(pool[(i + j * 5) % len(pool)] for j in range(n)) for n in range(1, h + 1) for i in range(len(pool))]
    st0 = world.initial(h, w)
    w2 = w + 7
    pool2 = wide_pool(w2)
    arrs2 = [tuple(pool2[(i + j * 5) % len(pool2)] for j in range(n)) for n in range(1, h + 1) for i in range(len(pool2))]
    for ai, A in enumerate(arrs):
        if ai % nparts != part:
            continue
        term = world.load(st0)
        try:
            world.win.render_to_terminal(build_array(A), (0, 0))
        except Exception as ex:  # noqa
            acc.failure("C02:render_raises:" + type(ex).__name__, {"size": [h, w], "render": show_arr(A)}, repr(ex))
            continue
        check_screen(acc, term, A, (0, 0), hide, {"hide_cursor": hide, "size": [h, w], "history": [["init", h, w]], "render": show_arr(A), "cursor": [0, 0]}, 0)
        stA = world.save()
        for mode in ("direct", "resize_fill", "resize_keep"):
            if mode == "direct":
                stB, seconds, hw = stA, arrs, (h, w)
            else:
                term = world.load(stA)
                term.resize(h, w2, mode.split("_")[1])
                stB, seconds, hw = (WH.snapshot(world.win), term), arrs2, (h, w2)
            for B in seconds:
                term = world.load(stB)
                term.scrolls = 0
                sb = len(term.scrollback)
                cur = (len(B) - 1, min(hw[1] - 1, len(B[-1])))
                case = {"hide_cursor": hide, "size": list(hw), "history": [["init", h, w], ["render", show_arr(A), [0, 0]]] + ([["resize", h, w2, mode.split("_")[1]]] if mode != "direct" else []), "render": show_arr(B), "cursor": list(cur)}
                acc.case(True, key=("wide", hide, h, w, A, mode, B), sample=case)
                acc.transitions += 1
                try:
                    world.win.render_to_terminal(build_array(B), cur)
                except TermError as ex:
                    acc.failure("C02:unknown_terminal_sequence", case, repr(ex))
                    continue
                except Exception as ex:  # noqa
                    acc.failure("C02:render_raises:" + type(ex).__name__, case, repr(ex))
                    continue
                if check_screen(acc, term, B, cur, hide, case, sb):
                    acc.state(hash(("wide", term.canon())))
    world.proxy.close()
    return acc.export()


def sessions_objects(args):
    """The SAME FSArray objects rendered again and again, with lists rendered in between and with the arrays modified between
    renders (region assignment; whole-row replacement through .rows): every history of <= 4 (5 thorough) actions."""
    tier, seed, hide, part, nparts = args
    from curtsies.formatstring import fmtstr
    from curtsies.formatstringarray import fsarray

    acc = Acc(seed=seed, sample_stride=1999)
    world = World(hide)
    h, w = 2, 3
    depth = 5 if tier == "thorough" else 4
    ACTIONS = ("render_X", "render_Y", "render_list", "render_empty", "assign_X", "replace_row_X", "grow_Y")

    def cellsof(text, att=()):
        return [(c, att) for c in text]

    def run_history(hist):
        world.initial(h, w)
        term = world.proxy.term
        X = fsarray([fmtstr("ab"), fmtstr("c", "red")])
        Y = fsarray(["q", "rs"])
        model = {"X": [cellsof("ab"), cellsof("c", RED)], "Y": [cellsof("q"), cellsof("rs")]}
        steps = []
        for k, act in enumerate(hist):
            steps.append(act)
            if act.startswith("render"):
                if act == "render_X":
                    real, want = X, model["X"]
                elif act == "render_Y":
                    real, want = Y, model["Y"]
                elif act == "render_list":
                    real, want = [fmtstr("zz", "red"), "y"], [cellsof("zz", RED), cellsof("y")]
                else:
                    real, want = [], []
                term.scrolls = 0
                sb = len(term.scrollback)
                case = {"hide_cursor": hide, "size": [h, w], "history": steps[:-1], "render": act, "objects": "the same FSArray objects throughout the history"}
                acc.transitions += 1
                try:
                    world.win.render_to_terminal(real, (0, 0))
                except Exception as ex:  # noqa
                    acc.failure("C02:render_raises:" + type(ex).__name__, case, repr(ex))
                    return
                want_t = tuple(tuple(r) for r in want)
                if not check_screen(acc, term, want_t, (0, 0), hide, case, sb):
                    return
            elif act == "assign_X":
                ch = "MNOPQ"[k % 5]
                X[0:1, 1:2] = [ch]
                model["X"][0] = model["X"][0][:1] + cellsof(ch) + model["X"][0][2:]
            elif act == "replace_row_X":
                ch = "uvwxyz"[k % 6]
                X.rows[1] = fmtstr(ch * 2, "red")
                model["X"][1] = cellsof(ch * 2, RED)
            elif act == "grow_Y":
                ch = "GHIJK"[k % 5]
                Y[len(Y.rows) : len(Y.rows) + 1, 0:1] = [ch]
                model["Y"] = model["Y"] + [cellsof(ch)]

    n = 0
    for d in range(1, depth + 1):
        for hist in itertools.product(ACTIONS, repeat=d):
            if not hist[-1].startswith("render"):
                continue
            n += 1
            if n % nparts != part:
                continue
            acc.case(True, key=("objects", hide, hist), sample={"hide_cursor": hide, "size": [h, w], "history": list(hist)})
            run_history(hist)
    world.proxy.close()
    return acc.export()


def sessions_long(args):
    """One window, hundreds of renders in a row (arrays cycling through the small menu with a stride, cursor moving, a resize with
    junk every 37th step): anything that counts renders or ages a cache meets its threshold."""
    tier, seed, hide, stride = args
    acc = Acc(seed=seed, sample_stride=499)
    world = World(hide)
    n = 1200 if tier == "thorough" else 400
    sizes = [(2, 3), (3, 2), (2, 24), (3, 4)]
    si = 0
    h, w = sizes[si]
    world.initial(h, w)
    term = world.proxy.term
    pool = {}
    for sz in sizes:
        if sz[1] >= 24:
            wp = wide_pool(sz[1])
            pool[sz] = [()] + [tuple(wp[(i + j * 5) % len(wp)] for j in range(nr)) for nr in range(1, sz[0] + 1) for i in range(len(wp))]
        else:
            pool[sz] = list(arrays_for(sz[0], sz[1], "full" if sz[1] <= 3 else "sharp"))
    hist = []
    for k in range(n):
        if k and k % 37 == 0:
            si = (si + 1) % len(sizes)
            h, w = sizes[si]
            term.resize(h, w, "fill" if (k // 37) % 2 else "keep")
            world.proxy.set_size(h, w)
            hist.append(["resize", h, w])
        arrs = pool[(h, w)]
        arr = arrs[(k * stride) % len(arrs)]
        cur = (min(h - 1, k % 2), min(w - 1, k % 3))
        term.scrolls = 0
        sb = len(term.scrollback)
        case = {"hide_cursor": hide, "size": [h, w], "session": "long", "step": k, "stride": stride, "last_steps": hist[-3:], "render": show_arr(arr), "cursor": list(cur)}
        acc.case(True, key=("long", hide, stride, k), sample=case)
        acc.transitions += 1
        try:
            world.win.render_to_terminal(build_array(arr), cur)
        except Exception as ex:  # noqa
            acc.failure("C02:render_raises:" + type(ex).__name__, case, repr(ex))
            break
        if not check_screen(acc, term, arr, cur, hide, case, sb):
            break
        hist.append(["render", show_arr(arr), list(cur)])
    world.proxy.close()
    return acc.export()


def sessions_huge(args):
    """Screens far beyond small: 140 x 12 and 130 x 3 (rows 128 and up exist), 100 x 60 with every cell formatted differently from
    its neighbour (one render writes more than 131 072 characters): a full render over the marker screen, a second render that
    changes every third row / the bottom rows / nothing, cursor in a bottom corner."""
    tier, seed, hide, h, w, rich = args
    acc = Acc(seed=seed, sample_stride=7)
    world = World(hide)
    world.initial(h, w)
    term = world.proxy.term
    pals = [(), RED, (("bg", 44), ("bold", True), ("fg", 33)), (("bg", 42), ("fg", 35), ("underline", True)), (("bold", True), ("invert", True))]
    if rich:
        pals = [tuple(sorted((("bg", 40 + k % 8), ("fg", 30 + (k * 3) % 8)) + ((("bold", True),) if k % 2 else (("underline", True), ("dark", True))))) for k in range(7)]

    def make(step, which):
        rows = []
        for r in range(h):
            changed = step == 0 or which == "all" or (which == "thirds" and r % 3 == 0) or (which == "bottom" and r >= h - 14)
            tag = (step if changed else 0)
            text = ("%d:%d " % (r, tag) * w)[: w if r % 4 else max(0, w - 2)]
            if rich:
                rows.append(tuple((c, pals[(r + x + tag) % len(pals)]) for x, c in enumerate(text)))
            else:
                rows.append(tuple((c, pals[(r + tag) % 2]) for c in text))
        return tuple(rows)

    step = 0
    for which in ("all", "thirds", "bottom", "none", "all"):
        arr = make(step, which)
        cur = (h - 1, w - 1) if step % 2 == 0 else (h - 1, 0)
        term.scrolls = 0
        sb = len(term.scrollback)
        case = {"hide_cursor": hide, "size": [h, w], "family": "huge screen", "per_cell_formatting": rich, "step": step, "rows_changed": which, "cursor": list(cur)}
        acc.case(True, key=("huge", hide, h, w, rich, step), sample=case)
        acc.transitions += 1
        world.proxy.log = []
        try:
            world.win.render_to_terminal(build_array(arr), cur)
        except Exception as ex:  # noqa
            acc.failure("C02:render_raises:" + type(ex).__name__, case, repr(ex))
            break
        finally:
            acc.extra["largest_render_characters"] = max(acc.extra.get("largest_render_characters", 0), sum(len(x) for x in world.proxy.log))
            world.proxy.log = None
        if not check_screen(acc, term, arr, cur, hide, case, sb):
            break
        step += 1
    world.proxy.close()
    return acc.export()


def sessions_two_windows(args):
    """Two FullscreenWindow objects on two terminals, alive at the same time, rendered alternately (and in runs of 1..3 renders each):
    what one window shows must not depend on the other (state kept on the class or in the module would be shared)."""
    tier, seed, hide, part, nparts = args
    acc = Acc(seed=seed, sample_stride=1999)
    wa, wb = World(hide), World(not hide)
    sizes = ((2, 3), (3, 2))
    wa.initial(*sizes[0])
    wb.initial(*sizes[1])
    ta, tb = wa.proxy.term, wb.proxy.term
    arrs_a = list(arrays_for(2, 3, "sharp"))
    arrs_b = list(arrays_for(3, 2, "sharp"))
    n = 0
    for i, A in enumerate(arrs_a):
        for j in range(i % 131, len(arrs_b), 131):
            n += 1
            if n % nparts != part:
                continue
            B = arrs_b[j]
            for pattern in ("ab", "ba", "aab", "abb", "abab"):
                for who in pattern:
                    world, term, arr, size = (wa, ta, A, sizes[0]) if who == "a" else (wb, tb, B, sizes[1])
                    cur = (0, 0)
                    term.scrolls = 0
                    sb = len(term.scrollback)
                    case = {"hide_cursor": world.hide, "size": list(size), "two_windows": {"pattern": pattern, "this_window": who, "other_window_renders": show_arr(B if who == "a" else A)}, "render": show_arr(arr), "cursor": [0, 0]}
                    acc.case(True, key=("two", hide, A, B, pattern, who))
                    acc.transitions += 1
                    try:
                        world.win.render_to_terminal(build_array(arr), cur)
                    except Exception as ex:  # noqa
                        acc.failure("C02:render_raises:" + type(ex).__name__, case, repr(ex))
                        continue
                    check_screen(acc, term, arr, cur, world.hide, case, sb)
    wa.proxy.close()
    wb.proxy.close()
    return acc.export()


def run(ctx):
    rep = Report()
    huge = [(ctx.tier, ctx.seed, hide, h, w, rich) for hide in (True, False) for (h, w, rich) in ((140, 12, False), (130, 3, True), (100, 80, True), (129, 40, False), (260, 4, False), (300, 2, True), (150, 125, True))]
    for d in ctx.pmap(sessions_huge, huge):
        rep.merge(d, "screens_of_100_to_140_rows")
    for d in ctx.pmap(sessions_two_windows, [(ctx.tier, ctx.seed, hide, p, 8) for hide in (True, False) for p in range(8)]):
        rep.merge(d, "two_windows_alive_at_once")
    for d in ctx.pmap(sessions_long, [(ctx.tier, ctx.seed, hide, stride) for hide in (True, False) for stride in (1, 7, 11, 13)]):
        rep.merge(d, "one_window_hundreds_of_renders")
    wide = [(ctx.tier, ctx.seed, hide, h, w, p, 8) for hide in (True, False) for (h, w) in ((2, 24), (3, 31)) for p in range(8)]
    for d in ctx.pmap(sessions_wide, wide):
        rep.merge(d, "wide_terminals_pairs_of_renders")
    for d in ctx.pmap(sessions_objects, [(ctx.tier, ctx.seed, hide, p, 8) for hide in (True, False) for p in range(8)]):
        rep.merge(d, "same_fsarray_objects_rendered_again")
    configs = CONFIGS[ctx.tier]
    seen = {}
    frontier = {}
    for hide in (True, False):
        for ci, (sizes, ncur) in enumerate(configs):
            seen[(hide, ci)] = set()
            frontier[(hide, ci)] = [(("init", h, w),) for (h, w) in sizes]
    depth = 0
    fix = True
    while any(frontier.values()):
        depth += 1
        shards = []
        for (hide, ci), hs in frontier.items():
            if not hs:
                continue
            chunk = max(1, min(40, len(hs) // 32 + 1))
            shards += [(ctx.tier, ctx.seed, hide, ci, tuple(hs[j : j + chunk])) for j in range(0, len(hs), chunk)]
        nxt = {k: [] for k in frontier}
        for sh, (d, found) in zip(shards, ctx.pmap(expand, shards)):
            rep.merge(d, "bfs_level_%d" % depth)
            key = (sh[2], sh[3])
            for k, h in found:
                if k not in seen[key]:
                    seen[key].add(k)
                    nxt[key].append(h)
        frontier = nxt
        if depth >= DEPTH_CAP and any(frontier.values()):
            fix = False
            rep.caps.append("depth cap %d hit with %d states unexpanded" % (DEPTH_CAP, sum(len(v) for v in frontier.values())))
            break
    for key, ks in seen.items():
        for k in ks:
            rep.state_hashes.add(hash((key, k)))
    rep.extra["max_depth"] = depth
    rep.extra["fixpoint_reached"] = fix
    for d in ctx.pmap(input_kinds, [(ctx.tier, ctx.seed, h) for h in (True, False)]):
        rep.merge(d, "input_kinds")
    rep.exhaustive = fix
    rep.rule = (
        "BFS per size set and hide_cursor: initial = entered window over a marker screen; render(array, cursor) for every array of heights "
        "0..h+1 over the row alphabet (every row of length 0..w+1 over {a, red a} for the 'full' sizes, else the 6-row sharp alphabet: empty, a, "
        "red a, full-width, full-width ending red, over-wide) and 2 cursor positions; resize to every other size (never the size last rendered "
        "at) with junk 'every cell a formatted #, cursor in pending wrap' and 'old content kept', from a bounded set of source states; exit from "
        "every state. Search runs until no new canonical state appears (fixpoint) - then the result covers histories of any length over the "
        "alphabet. non-trivial = a render that follows another render/resize and differs from the previous one. transitions = real renders/exits/resizes."
    )
    rep.assumptions = [
        "terminal = mc/term.py (xterm: pending wrap, BCE, DECSC, ?1049); TERM=xterm terminfo via blessed",
        "single-column printable characters only; cursor positions inside the screen",
        "a resize never returns to the size last rendered at without a render in between (property's quantifier)",
    ]
    return rep
