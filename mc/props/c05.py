"""C05 - parsing a FmtStr's terminal string gives the same FmtStr back (DESIGN.md 4/C05).

(a) round trip: alpha(FmtStr.from_str(str(f))) == cells given at construction, over the C01 universe of singles
    (59 049 attribute assignments), pairs and triples, with texts that include newlines, tabs, wide and accented
    characters and bracket look-alikes ("x[1m", "[0m").
(b) grammar: every string  T0 S1 T1 [S2 T2 [S3 T3]]  with S = ESC [ p1;...;pn m, parameters from the 25 supported codes
    (n = 0..2; 651 tokens), text slots from a pattern list; oracle = the independent SGR interpreter's per-character
    attributes == alpha(from_str(s)).
"""
import itertools

from mc import cells as C
from mc import sgr
from mc import repeat
from mc.runner import Acc, Report
from mc.props import c01

LEVEL = "model_checking"

CODES = (0, 1, 2, 3, 4, 5, 7) + tuple(range(30, 38)) + (39,) + tuple(range(40, 48)) + (49,)
assert len(CODES) == 25
SUB12 = (0, 1, 2, 4, 7, 31, 34, 39, 41, 44, 49, 5)
SUB8 = (0, 1, 4, 31, 39, 44, 49, 2)

TEXTS_QUICK = ("a", "a\nb", "x[1m")
TEXTS_THOROUGH = ("a", "a\nb", "\n", "\ta", "Ｅ", "é", "x[1m", "[0m", "a;b m", "\r\n")

PATTERNS2 = (("a", "b", "c"), ("", "b", ""), ("a", "", "c"), ("a\n", "b\n", "c"), ("", "\n", "\n"), ("a", "b\n", ""))
PATTERNS3 = (("a", "b", "c", "d"), ("", "b", "", "d"), ("a", "", "c\n", ""), ("\n", "b\n", "", "d"))
PATTERNS1 = (("a", "b"), ("", "b"), ("a", ""), ("a\n", "b"), ("a", "\nb"), ("", ""))


def tokens(codes, maxn):
    out = ["\x1b[m"]
    for n in range(1, maxn + 1):
        for ps in itertools.product(codes, repeat=n):
            out.append("\x1b[" + ";".join(map(str, ps)) + "m")
    return out


def check_string(acc, s, case):
    from curtsies.formatstring import FmtStr

    want, _final, non_sgr, unknown = sgr.interpret(s)
    if non_sgr or unknown:
        acc.failure("harness:grammar_outside_sgr", case, repr(s))
        return
    try:
        got = C.cells(FmtStr.from_str(s))
    except Exception as ex:  # noqa
        acc.failure("C05:from_str_raises:" + type(ex).__name__, case, "%r on %r" % (ex, s))
        return
    acc.state(hash(tuple(got)))
    if got != want:
        sig = "C05:grammar_text" if [c for c, _ in got] != [c for c, _ in want] else "C05:grammar_formatting"
        acc.failure(sig, case, "from_str(%r) -> %r, a terminal shows %r" % (s, got, want))


def shard_grammar(args):
    tier, seed, kind, first = args
    acc = Acc(seed=seed)
    if kind == 1:
        toks = tokens(CODES, 2)
        for s1 in toks[first::16]:
            for pat in PATTERNS1:
                s = pat[0] + s1 + pat[1]
                acc.case(bool(pat[0] or pat[1]), key=s, sample=lambda: {"s": s})
                check_string(acc, s, {"s": s})
    elif kind == 2:
        toks = tokens(CODES, 2)
        s1 = toks[first]
        pats = PATTERNS2 if tier == "thorough" else PATTERNS2[:4]
        for s2 in toks:
            for pat in pats:
                s = pat[0] + s1 + pat[1] + s2 + pat[2]
                acc.case(True, key=s, sample=lambda: {"s": s})
                check_string(acc, s, {"s": s})
    else:
        toks = tokens(SUB12, 2) if tier == "thorough" else tokens(CODES, 1)
        s1 = toks[first]
        pats = PATTERNS3 if tier == "thorough" else PATTERNS3[:3]
        for s2 in toks:
            for s3 in toks:
                for pat in pats:
                    s = pat[0] + s1 + pat[1] + s2 + pat[2] + s3 + pat[3]
                    acc.case(True, key=s, sample=lambda: {"s": s})
                    check_string(acc, s, {"s": s})
    return acc.export()


def roundtrip(acc, runs, case):
    from curtsies.formatstring import FmtStr, fmtstr

    f = None
    for text, kw in runs:
        part = fmtstr(text, **kw)
        f = part if f is None else f + part
    expected = []
    for text, kw in runs:
        a = c01.expected_atts(kw)
        expected.extend((c, a) for c in text)
    s = str(f)
    try:
        got = C.cells(FmtStr.from_str(s))
    except Exception as ex:  # noqa
        acc.failure("C05:roundtrip_raises:" + type(ex).__name__, case, "%r on %r" % (ex, s))
        return
    acc.state(hash(tuple(got)))
    if got != expected:
        sig = "C05:roundtrip_text" if [c for c, _ in got] != [c for c, _ in expected] else "C05:roundtrip_formatting"
        acc.failure(sig, case, "from_str(%r) -> %r, constructed %r" % (s, got, expected))


def shard_roundtrip_singles(args):
    tier, seed, fg, bg = args
    acc = Acc(seed=seed)
    texts = TEXTS_THOROUGH if tier == "thorough" else TEXTS_QUICK
    for tri in itertools.product(c01.TRI, repeat=6):
        kw = c01.kw_of(fg, bg, tri)
        for text in texts:
            case = {"kind": "roundtrip", "runs": [[text, kw]]}
            acc.case(bool(kw), key=("r", fg, bg, tri, text), sample=case)
            roundtrip(acc, [(text, kw)], case)
    return acc.export()


def shard_roundtrip_multi(args):
    tier, seed, i = args
    acc = Acc(seed=seed)
    x = c01.PAL24[i]
    texts = (("a", "b", "c"), ("a\n", "\nb", "x[1m")) if tier == "thorough" else (("a\n", "b", "c["),)
    for j, y in enumerate(c01.PAL24):
        for k, z in enumerate(c01.PAL24):
            for t in texts:
                for empty in (False, True):
                    runs = [(t[0], x), (t[1], y), (t[2], z)]
                    if empty:
                        runs.insert(1, ("", {"fg": "cyan", "bold": True}))
                    case = {"kind": "roundtrip", "runs": [[tt, kk] for tt, kk in runs]}
                    acc.case(True, key=("m", i, j, k, t, empty), sample=case)
                    roundtrip(acc, runs, case)
    return acc.export()


def shard_long_params(args):
    """One SGR sequence with many parameters (3..24), in several rotations of the supported codes, between two text slots."""
    tier, seed, idx = args
    acc = Acc(seed=seed)
    codes = list(CODES)
    for n in list(range(3, 25)) + [31, 32, 33, 34, 40, 64, 100]:
        for rot in range(idx, len(codes), 4):
            for stride in (1, 3, 7):
                ps = [codes[(rot + j * stride) % len(codes)] for j in range(n)]
                for tail in ([], [0], [39, 49]):
                    s = "a\x1b[" + ";".join(map(str, ps + tail)) + "mb\x1b[mc"
                    acc.case(True, key=s, sample=lambda: {"s": s})
                    check_string(acc, s, {"s": s})
    # thousands of parameters in one sequence (one rotation per shard)
    for n in (1000, 4095, 4096, 4097, 8191, 8192, 8193, 8194, 10000, 20000, 65535, 65536, 70001):
        ps = [codes[(idx + j * 3) % len(codes)] for j in range(n)]
        s = "a\x1b[" + ";".join(map(str, ps)) + "mb\x1b[mc"
        acc.case(True, key=("manyparams", n, idx), sample={"parameters": n})
        check_string(acc, s, {"parameters": n, "s": s[:80] + "..."})
    return acc.export()


def shard_derived(args):
    """Round trip for values produced by the public operations from operands that were rendered first."""
    tier, seed, idx = args
    from curtsies.formatstring import FmtStr

    acc = Acc(seed=seed)
    ops = c01.derived_ops()
    for i, spec in enumerate(C.layouts(3, 2)):
        if i % 64 != idx:
            continue
        for oi, (label, fn, model) in enumerate(ops):
            for warm in ("cold", "all"):
                f = C.build(spec)
                if warm == "all":
                    str(f), len(f), f.s
                case = {"kind": "derived_roundtrip", "f": C.show_spec(spec), "op": label, "operand_observed_first": warm}
                acc.case(True, key=("dr", spec, oi, warm), sample=case)
                try:
                    r = fn(f)
                    got = C.cells(FmtStr.from_str(str(r)))
                except Exception as ex:  # noqa
                    if len(spec) == 0 and label in ("ljust", "rjust*", "upper"):
                        continue
                    acc.failure("C05:roundtrip_raises:" + type(ex).__name__, case, repr(ex))
                    continue
                if got != C.cells(r):
                    acc.failure("C05:roundtrip_formatting" if [c for c, _ in got] == [c for c, _ in C.cells(r)] else "C05:roundtrip_text", case, "from_str(str(r)) -> %r, r is %r" % (got, C.cells(r)))
    return acc.export()


def shard_exotic(args):
    tier, seed, idx = args
    from curtsies.formatstring import FmtStr

    acc = Acc(seed=seed)
    specs = C.exotic_specs() + C.huge_specs() + C.scale_specs(tier == "thorough") + [C.adjacent_colour_pairs(), C.adjacent_colour_pairs((("bold", True),))]
    for si in range(idx, len(specs), 32):
        spec = specs[si]
        f = C.build(spec)
        want = C.spec_cells(spec)
        case = {"kind": "derived_roundtrip", "f": C.show_spec(spec) if len(spec) <= 60 else {"runs": len(spec), "first_runs": C.show_spec(spec[:6])}, "op": "exotic value"}
        acc.case(True, key=("x", si), sample=case)
        for rnd in range(2):
            try:
                got = C.cells(FmtStr.from_str(str(f)))
            except Exception as ex:  # noqa
                acc.failure("C05:roundtrip_raises:" + type(ex).__name__, case, repr(ex))
                break
            if got != want:
                acc.failure("C05:roundtrip_formatting" if [c for c, _ in got] == [c for c, _ in want] else "C05:roundtrip_text", case, "got %r" % (got[:30],))
                break
    return acc.export()


C1_TEXTS = ("\x9d0;title\x07rest", "a\x9d;b\x9cc", "\x9d\x07", "p\x9d12;q\x1f\x9c!", "\x90x\x9c", "\x9e\x9f\x98y\x9c", "\x07\x08\x0c", "\x9d2;x\x9d;y\x07z", "k\x85\x8e\x8f\x9a",
            "]0;t\x07", "P1$r\x9c", "^msg\x9c")


def shard_c1_texts(args):
    """Run texts made of C1 controls that START string-type control sequences in 8-bit terminals (OSC U+009D, DCS U+0090, SOS/PM/APC) with
    their terminators (BEL, ST U+009C) - but neither ESC nor the 8-bit CSI: ordinary characters of a FmtStr, every attribute set, alone
    and between other runs."""
    tier, seed, idx = args
    acc = Acc(seed=seed)
    for pi, kw in enumerate(c01.PAL24):
        if pi % 8 != idx:
            continue
        for t in C1_TEXTS:
            for around in (False, True):
                runs = [(t, kw)]
                if around:
                    runs = [("<", {"fg": "cyan"})] + runs + [(">\x07", {})]
                case = {"kind": "roundtrip", "runs": [[tt, kk] for tt, kk in runs]}
                acc.case(True, key=("c1", pi, t, around), sample=case)
                roundtrip(acc, runs, case)
    return acc.export()


def shard_long_text(args):
    """One combined SGR sequence of 36 / 61 characters starting at EVERY offset of a long text (0 .. limit): whatever a parser does
    every so-many characters (chunking, windows, look-back limits), some offset puts the sequence across it."""
    tier, seed, idx, nshards = args
    acc = Acc(seed=seed, sample_stride=997)
    limit = 20000 if tier == "thorough" else 7700
    seqs = ["\x1b[0;1;3;4;5;7;31;41;39;49;2;32;45m", "\x1b[" + ";".join(["1", "4", "32", "44"] * 7) + "m"]
    offs = set(range(limit))
    for m in range(500, 70001, 500):  # ... and the neighbourhood of every multiple of 500 up to 70 000
        offs.update(range(m - 3, m + 3))
    for oi, off in enumerate(sorted(offs)):
        if oi % nshards != idx:
            continue
        for q, seq in enumerate(seqs):
            if q == 1 and off % 2 and off < limit:
                continue
            s = "a" * off + seq + "b" * 30 + "\x1b[0m" + "c"
            acc.case(True, key=("long", off, q), sample=lambda: {"lead": off, "sequence": seq})
            check_string(acc, s, {"long_text": True, "lead": off, "sequence": seq})
    return acc.export()


def twins(acc):
    from mc import fresh

    n, findings = fresh.twin_findings()
    for _ in range(n):
        acc.case(True)
    acc.transitions += n
    for kind, case, msg in findings:
        acc.failure({"order_dependent": "C05:terminal_string_depends_on_what_was_rendered_before", "roundtrip": "C05:roundtrip_formatting", "terminal_meaning": "C05:terminal_string_formatting"}[kind], case, msg)


def run(ctx):
    rep = Report()
    repeat.run_into(ctx, rep, "C05")
    acc = Acc(seed=ctx.seed)
    twins(acc)
    rep.merge(acc, "bool_int_twin_values_in_fresh_processes")
    for d in ctx.pmap(shard_c1_texts, [(ctx.tier, ctx.seed, i) for i in range(8)]):
        rep.merge(d, "string_control_introducers_as_ordinary_characters")
    for d in ctx.pmap(shard_long_text, [(ctx.tier, ctx.seed, i, 32) for i in range(32)]):
        rep.merge(d, "long_text_every_offset")
    for d in ctx.pmap(shard_exotic, [(ctx.tier, ctx.seed, i) for i in range(32)]):
        rep.merge(d, "long_and_exotic_values")
    for d in ctx.pmap(shard_long_params, [(ctx.tier, ctx.seed, i) for i in range(4)]):
        rep.merge(d, "grammar_long_parameter_lists")
    for d in ctx.pmap(shard_derived, [(ctx.tier, ctx.seed, i) for i in range(64)]):
        rep.merge(d, "roundtrip_derived_values")
    grid = [(ctx.tier, ctx.seed, fg, bg) for fg in c01.COL for bg in c01.COL]
    for d in ctx.pmap(shard_roundtrip_singles, grid):
        rep.merge(d, "roundtrip_singles")
    for d in ctx.pmap(shard_roundtrip_multi, [(ctx.tier, ctx.seed, i) for i in range(24)]):
        rep.merge(d, "roundtrip_triples")
    n1 = len(tokens(CODES, 2))
    for d in ctx.pmap(shard_grammar, [(ctx.tier, ctx.seed, 1, i) for i in range(16)]):
        rep.merge(d, "grammar_1_token")
    for d in ctx.pmap(shard_grammar, [(ctx.tier, ctx.seed, 2, i) for i in range(n1)], chunksize=8):
        rep.merge(d, "grammar_2_tokens")
    n3 = len(tokens(SUB12, 2)) if ctx.thorough else len(tokens(CODES, 1))
    for d in ctx.pmap(shard_grammar, [(ctx.tier, ctx.seed, 3, i) for i in range(n3)], chunksize=2):
        rep.merge(d, "grammar_3_tokens")
    rep.validated = rep.n
    rep.rule = (
        "(a) str()/from_str round trip over all 59 049 single-run attribute assignments x texts and all 24^3 triples (with/without an "
        "empty run); (b) all strings T S T [S T [S T]] with S = ESC[p1;..;pn m over the 25 supported codes (n<=2: 651 tokens; three "
        "tokens: n<=1 quick, n<=2 over a 12-code subset thorough) and text-slot patterns incl. newlines; distinct by construction; "
        "states = distinct parsed cell lists"
    )
    rep.bounds = {"sgr_tokens": n1, "three_token_alphabet": n3}
    rep.assumptions = ["reference = mc/sgr.py (ECMA-48 SGR; bold and faint independent)", "False == absent"]
    return rep


def replay(ctx, case):
    acc = Acc()
    if case.get("kind") == "derived_roundtrip":
        return []
    if case.get("long_text"):
        s = "a" * case["lead"] + case["sequence"] + "b" * 30 + "\x1b[0m" + "c"
        check_string(acc, s, case)
    elif "style_colour_bool_int" in case:
        twins(acc)
    elif "s" in case:
        check_string(acc, case["s"], case)
    else:
        roundtrip(acc, [(t, k) for t, k in case["runs"]], case)
    return [(s, e["cases"][0]["message"]) for s, e in acc.fail.items()]
