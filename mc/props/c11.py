"""C11 - width_aware_splitlines wraps to the column limit without losing anything (DESIGN.md 4/C11).

Space  : every string over {a (1 column), FULLWIDTH E (2), COMBINING GRAVE (0)} of length <= N, every cut into <= 3 runs (empty runs
         included, so runs ending exactly on a line boundary arise by construction), palette P3; columns 2..K; columns < 2 must raise.
Oracle : every line's width <= columns; every line but the last == columns; no line without characters; removing the permitted paddings
         (a single trailing space, formatted like the double-width character that would straddle the boundary) the concatenation of all
         lines' cells == alpha(f); line by line, the non-zero-width cells equal a greedy reference wrap (placement of zero-width
         characters at a line break is free).
"""
import itertools

from mc import cells as C
from mc import repeat
from mc.runner import Acc, Report

LEVEL = "model_checking"
class _Widths(dict):
    """Column widths beyond the small alphabet: East Asian wide / fullwidth = 2, combining marks = 0, everything else 1."""

    def __missing__(self, c):
        import unicodedata

        o = ord(c)
        zero = unicodedata.combining(c) or 0x200B <= o <= 0x200D or 0xFE00 <= o <= 0xFE0F or 0xE0100 <= o <= 0xE01EF or 0x1160 <= o <= 0x11FF
        w = 0 if zero else (2 if unicodedata.east_asian_width(c) in ("W", "F") else 1)
        self[c] = w
        return w


W = _Widths({"a": 1, "Ｅ": 2, "̀": 0, "漢": 2, " ": 1})


PAD = "\0pad"


def reference(fc, columns, mark=False):
    """Greedy wrap. mark=True: the padding space put in front of a double-width character that does not fit is returned as PAD
    (a real space at the end of a line must not be mistaken for it)."""
    lines, cur, w = [], [], 0
    for c, a in fc:
        cw = W[c]
        if cw == 0:
            continue
        if w + cw > columns:
            if w < columns:
                cur.append((PAD if mark else " ", a))
            lines.append(cur)
            cur, w = [], 0
        cur.append((c, a))
        w += cw
        if w == columns:
            lines.append(cur)
            cur, w = [], 0
    if cur:
        lines.append(cur)
    return lines


def check(acc, f, fc, columns, case):
    try:
        got = [C.cells(line) for line in f.width_aware_splitlines(columns)]
    except Exception as ex:  # noqa
        acc.failure("C11:raises:" + type(ex).__name__, case, repr(ex))
        return
    acc.state(hash(tuple(tuple(l) for l in got)))
    want = reference(fc, columns)
    for i, line in enumerate(got):
        lw = sum(W[c] for c, _ in line)
        if not line:
            acc.failure("C11:empty_line", case, "%r" % (got,))
            return
        if lw > columns:
            acc.failure("C11:line_too_wide", case, "%r" % (line,))
            return
        if i < len(got) - 1 and lw != columns:
            acc.failure("C11:short_line_before_last", case, "%r" % (got,))
            return
    nz = [[cell for cell in line if W[cell[0]] != 0] for line in got]
    nz = [l for l in nz]
    want_cmp = list(want)
    # a trailing line holding only zero-width characters is allowed (placement at a break is free)
    if len(nz) == len(want_cmp) + 1 and not nz[-1]:
        nz = nz[:-1]
    if nz != want_cmp:
        acc.failure("C11:lines_differ_from_greedy_wrap", case, "got %r, reference %r" % (got, want))
        return
    # losslessness including zero-width characters: drop the paddings the reference put in
    flat = []
    for line, ref in zip(got, reference(fc, columns, mark=True) + [[]]):
        pad = bool(ref) and ref[-1][0] == PAD
        cells_ = list(line)
        if pad:
            # remove the last space (the padding); zero-width characters may follow it
            for k in range(len(cells_) - 1, -1, -1):
                if cells_[k][0] == " ":
                    del cells_[k]
                    break
        flat.extend(cells_)
    if flat != fc:
        acc.failure("C11:characters_lost_or_reordered", case, "lines %r do not concatenate to %r" % (got, fc))


def shard_scale(args):
    """Sizes far beyond small (cells.scale_specs) wrapped at narrow, ordinary and very wide limits, and at limits next to the value's
    own width."""
    tier, seed, idx, nshards = args
    acc = Acc(seed=seed, sample_stride=4999)
    specs = C.scale_specs(tier == "thorough")
    for si in range(idx, len(specs), nshards):
        spec = specs[si]
        f = C.build(spec)
        fc = C.spec_cells(spec)
        snap = C.snapshot(f)
        total = sum(W[c] for c, _ in fc)
        shown = {"scale_value": {"characters": len(fc), "runs": len(spec), "first_runs": C.show_spec(spec[:3])}}
        for columns in sorted({2, 3, 7, 20, 41, 79, 80, 81, 132, 200, 255, 256, 257, 1000, 2500, max(2, total - 1), max(2, total), total + 1}):
            case = dict(shown, columns=columns)
            acc.case(total > columns, key=("scale", si, columns), sample=case)
            acc.transitions += 1
            check(acc, f, fc, columns, case)
        if C.snapshot(f) != snap:
            acc.failure("C11:operand_changed", shown, "")
    return acc.export()


FIRST_SCENARIOS = ("suspend_first_then_full_wrap_of_another", "two_iterators_alternating", "suspend_first_then_same_value_again", "suspend_in_second_run_then_linesplit_and_wrap")


def first_in_process(scenario):
    """Runs in a process of its own: the very first wrap iterators this process ever creates are consumed interleaved."""
    spec_a = (("aＥaＥaaＥbbbbＥcc", (("fg", 31),)), ("ddＥ\u0300dddd", (("bg", 44),)))
    spec_b = (("zＥzzzzＥＥz", (("bold", True),)), ("yyyyyy", ()))
    a, b = C.build(spec_a), C.build(spec_b)
    plain_ = lambda lines: [[[c, [list(x) for x in at]] for c, at in C.cells(l)] for l in lines]
    out = {}
    if scenario == "suspend_first_then_full_wrap_of_another":
        it1 = a.width_aware_splitlines(3)
        first = [next(it1)]
        out["b"] = plain_(list(b.width_aware_splitlines(4)))
        out["a"] = plain_(first + list(it1))
    elif scenario == "two_iterators_alternating":
        it1, it2 = a.width_aware_splitlines(3), b.width_aware_splitlines(4)
        la, lb = [], []
        for _ in range(60):
            x, y = next(it1, None), next(it2, None)
            if x is None and y is None:
                break
            if x is not None:
                la.append(x)
            if y is not None:
                lb.append(y)
        out["a"], out["b"] = plain_(la), plain_(lb)
    elif scenario == "suspend_first_then_same_value_again":
        it1 = a.width_aware_splitlines(3)
        first = [next(it1), next(it1)]
        out["b"] = plain_(list(a.width_aware_splitlines(4)))
        out["a"] = plain_(first + list(it1))
        b = a
    else:
        from curtsies.formatstring import linesplit

        it1 = a.width_aware_splitlines(3)
        first = [next(it1) for _ in range(7)]
        linesplit(b, 3)
        out["b"] = plain_(list(b.width_aware_splitlines(4)))
        out["a"] = plain_(first + list(it1))
    # afterwards, one at a time
    out["a_alone"] = plain_(list(a.width_aware_splitlines(3)))
    out["b_alone"] = plain_(list(b.width_aware_splitlines(4)))
    out["a_cells"] = [[c, [list(x) for x in at]] for c, at in C.cells(a)]
    out["b_cells"] = [[c, [list(x) for x in at]] for c, at in C.cells(b)]
    return out


def check_first_in_process(acc):
    from mc import fresh

    def tup(lines):
        return [[(c, tuple(tuple(x) for x in at)) for c, at in l] for l in lines]

    for sc in FIRST_SCENARIOS:
        res = fresh.in_fresh_process(first_in_process, sc)
        case = {"scenario": sc, "process": "fresh: the first wraps the process ever makes"}
        acc.case(True, key=("first", sc), sample=case)
        acc.transitions += 1
        for who, cols in (("a", 3), ("b", 4)):
            got, alone = tup(res[who]), tup(res[who + "_alone"])
            fc = [(c, tuple(tuple(x) for x in at)) for c, at in res[who + "_cells"]]
            want = reference(fc, cols)
            nz = [[cell for cell in line if W[cell[0]] != 0] for line in got]
            if got != alone or nz != want:
                acc.failure("C11:interleaved_wraps_interfere", dict(case, value=who, columns=cols), "interleaved %r, one at a time %r" % (["".join(c for c, _ in l) for l in got], ["".join(c for c, _ in l) for l in alone]))


def shard(args):
    tier, seed, idx, nshards = args
    acc = Acc(seed=seed, sample_stride=19997)
    thorough = tier == "thorough"
    maxlen, maxcol = (6, 7) if thorough else (5, 5)
    sigma = ("a", "Ｅ", "̀")
    i = 0
    for n in range(maxlen + 1):
        for t in itertools.product(sigma, repeat=n):
            text = "".join(t)
            for spec in C.cuts(text, max_runs=3 if n <= 5 else 2):
                i += 1
                if i % nshards != idx:
                    continue
                f = C.build(spec)
                fc = C.cells(f)
                snap = C.snapshot(f)
                for columns in range(2, maxcol + 1):
                    case = {"f": C.show_spec(spec), "columns": columns}
                    nontriv = sum(W[c] for c in text) > columns
                    acc.case(nontriv, key=(spec, columns), sample=case)
                    acc.transitions += 1
                    check(acc, f, fc, columns, case)
                for columns in (1, 0, -1):
                    acc.case(False, key=(spec, columns))
                    try:
                        r = f.width_aware_splitlines(columns)
                        list(r)
                        acc.failure("C11:narrow_columns_accepted", {"f": C.show_spec(spec), "columns": columns}, "no ValueError")
                    except ValueError:
                        pass
                    except Exception as ex:  # noqa
                        acc.failure("C11:narrow_columns_raises_other:" + type(ex).__name__, {"f": C.show_spec(spec), "columns": columns}, repr(ex))
                if C.snapshot(f) != snap:
                    acc.failure("C11:operand_changed", {"f": C.show_spec(spec)}, "")
    # longer strings and wider limits: 8..40 characters from repeating patterns, 1..8 runs, columns up to 20
    jj = 0
    for pat in ("a", "Ｅ", "a漢", "Ｅ\u0300a", "a\u0300\u0300Ｅ", "ＥＥa", "aaＥ", "Ｅ\u200d", "\u203c\ufe0fa", "\u2764\ufe0fＥ", "\u2122\ufe0f\u2600\ufe0f", "a\ufe0eＥ\u1160"):
        for total in (8, 16, 17, 33, 40):
            text = (pat * total)[:total]
            for nruns in (1, 2, 5, 8):
                jj += 1
                if jj % nshards != idx:
                    continue
                step = max(1, total // nruns)
                parts = [text[j : j + step] for j in range(0, total, step)]
                spec = tuple((p_, C.P3[k % 3]) for k, p_ in enumerate(parts))
                f = C.build(spec)
                fc = C.cells(f)
                for columns in (2, 3, 4, 5, 7, 8, 9, 15, 16, 17, 20):
                    case = {"f": C.show_spec(spec), "columns": columns}
                    acc.case(True, key=("long", spec, columns), sample=case)
                    acc.transitions += 1
                    check(acc, f, fc, columns, case)
    # two wraps alive at the same time, consumed interleaved (same value with two limits; a value and a longer value sharing its runs)
    kk = 0
    for text in ("aＥaＥaaＥ", "ＥＥaaa\u0300aＥa", "aaaaaaaaaa", "ＥaＥaＥaＥaＥ"):
        for spec in C.cuts(text, max_runs=2):
            kk += 1
            if kk % nshards != idx:
                continue
            f = C.build(spec)
            g = f + C.build(((("zＥz"), (("bg", 45),)),))
            for c1, c2 in ((2, 3), (3, 5), (7, 4), (4, 4)):
                seq1 = [C.cells(x) for x in f.width_aware_splitlines(c1)]
                seq2 = [C.cells(x) for x in g.width_aware_splitlines(c2)]
                it1, it2 = f.width_aware_splitlines(c1), g.width_aware_splitlines(c2)
                got1, got2 = [], []
                for _ in range(40):
                    a = next(it1, None)
                    b = next(it2, None)
                    if a is None and b is None:
                        break
                    if a is not None:
                        got1.append(C.cells(a))
                    if b is not None:
                        got2.append(C.cells(b))
                case = {"f": C.show_spec(spec), "columns": [c1, c2], "op": "two wraps consumed interleaved"}
                acc.case(True, key=("il", spec, c1, c2), sample=case)
                acc.transitions += 1
                if got1 != seq1 or got2 != seq2:
                    acc.failure("C11:interleaved_wraps_interfere", case, "interleaved %r / %r, one at a time %r / %r" % (got1, got2, seq1, seq2))
    # every attribute kind on the run that is cut at a line end (the padding space must carry all of them)
    kk = 0
    rich = [(("fg", 31),), (("bg", 44),)] + [((st, True),) for st in C.STYLE_NAMES] + [(("bg", 41), ("bold", True), ("fg", 32), ("underline", True))]
    for att in rich:
        for lead in ("", "a", "aa", "aaa"):
            kk += 1
            if kk % nshards != idx:
                continue
            spec = ((lead, ()), ("ＥaＥ", att), ("Ｅ", ()))
            f = C.build(spec)
            fc = C.cells(f)
            for columns in (2, 3, 4, 5):
                case = {"f": C.show_spec(spec), "columns": columns}
                acc.case(True, key=("rich", spec, columns), sample=case)
                acc.transitions += 1
                check(acc, f, fc, columns, case)
    # values whose runs are the same objects repeated (f*2, f+f, join)
    j = 0
    for n in range(1, 4 if not thorough else 5):
        for t in itertools.product(sigma, repeat=n):
            for spec in C.cuts("".join(t), max_runs=2):
                for how in C.REPEAT_HOWS:
                    j += 1
                    if j % nshards != idx:
                        continue
                    f, fc = C.build_repeated(spec, how)
                    if C.cells(f) != fc:
                        acc.failure("harness:repeated_value", {"f": C.show_spec(spec), "how": how}, "")
                        continue
                    for columns in range(2, maxcol + 1):
                        case = {"f": C.show_spec(spec), "value": how, "columns": columns}
                        acc.case(True, key=("rep", spec, how, columns), sample=case)
                        acc.transitions += 1
                        check(acc, f, fc, columns, case)
    return acc.export()


def run(ctx):
    rep = Report()
    repeat.run_into(ctx, rep, "C11")
    ns = 256 if ctx.thorough else 64
    for d in ctx.pmap(shard, [(ctx.tier, ctx.seed, i, ns) for i in range(ns)]):
        rep.merge(d)
    for d in ctx.pmap(shard_scale, [(ctx.tier, ctx.seed, i, 32) for i in range(32)]):
        rep.merge(d, "scale_sweep")
    acc = Acc(seed=ctx.seed)
    check_first_in_process(acc)
    rep.merge(acc, "first_wraps_of_a_fresh_process_interleaved")
    rep.validated = rep.n
    maxlen, maxcol = (6, 7) if ctx.thorough else (5, 5)
    rep.rule = (
        "every string over {a, fullwidth E, combining grave} of length <= %d cut into <= 3 runs (empty runs included, P3; 2 runs at length 6), "
        "columns 2..%d and the invalid 1, 0, -1; plus values whose runs are the same objects repeated (f*2, f+f, f.join([f,f])) for texts up to 3 (4). Distinct by construction; non-trivial = the text is wider than the column limit; states = "
        "distinct results" % (maxlen, maxcol)
    )
    rep.assumptions = ["placement of zero-width characters at a line break is free", "the zero-run value is outside the quantifier"]
    return rep


def replay(ctx, case):
    acc = Acc()
    spec = tuple((t, tuple(sorted(a.items()))) for t, a in case["f"])
    f = C.build(spec) if "value" not in case else C.build_repeated(spec, case["value"])[0]
    check(acc, f, C.cells(f), case["columns"], case)
    return [(s, e["cases"][0]["message"]) for s, e in acc.fail.items()]
