"""C04 - FSArray region assignment composites exactly the assigned block (DESIGN.md 4/C04).

Explicit-state BFS over assignment histories.  State = real FSArray (snapshot = new array sharing the immutable row values) +
reference grid (list of rows, each a list of cells, explicit row lengths).  Every action of the menu is applied through the real
__setitem__, the reference grid is updated by the obvious rule, and in every successor every read form (a[r], a[r0:r1], a[r0:r1,c0:c1],
a[r,c], shape, len) is compared with the grid.  States are deduplicated on the real rows' run structure (nothing abstracted away).
"""
import itertools

from mc import cells as C
from mc.runner import Acc, Report

LEVEL = "model_checking"
BLANK = (" ", ())
RED = (("fg", 31),)


def strip(row):
    row = list(row)
    while row and row[-1] == BLANK:
        row.pop()
    return row


def copy_array(a):
    from curtsies.formatstringarray import FSArray

    b = FSArray(0, a.num_columns, *a.saved_args, **a.saved_kwargs)
    b.rows = list(a.rows)
    return b


def canon(a):
    return (a.num_columns, tuple(tuple((c.s, C.norm_atts(c.atts)) for c in r.chunks) for r in a.rows))


def grid_of(a):
    return [C.cells(r) for r in a.rows]


def make_block(kind, rows):
    """rows: list of (text, atts). kind: 'str' | 'fmt' | 'fsarray' | 'mixed'."""
    from curtsies.formatstring import fmtstr
    from curtsies.formatstringarray import fsarray

    if kind == "str":
        return [t for t, _ in rows]
    vals = [fmtstr(t, **dict(a)) for t, a in rows]
    if kind == "fmt":
        return vals
    if kind == "mixed":
        return [v if i % 2 else rows[i][0] for i, v in enumerate(vals)]
    if kind == "fsarray_slack":
        # a block whose DECLARED width is larger than its rows (fsarray(rows, width=...) / a partly filled FSArray)
        from curtsies.formatstringarray import FSArray

        if len(vals) % 2:
            return fsarray(vals, width=max([len(v) for v in vals] + [0]) + 4)
        b = FSArray(len(vals), max([len(v) for v in vals] + [0]) + 7)
        for i_, v in enumerate(vals):
            b.rows[i_] = v
        return b
    if not vals:
        return fsarray([])
    return fsarray(vals)


def block_cells(kind, rows):
    out = []
    for i, (t, a) in enumerate(rows):
        plain = kind == "str" or (kind == "mixed" and i % 2 == 0)
        att = () if plain else C.norm_atts(dict(a))
        out.append([(c, att) for c in t])
    if kind in ("fsarray", "fsarray_slack") and rows:
        w = max(len(t) for t, _ in rows)
        out = [r + [BLANK] * 0 for r in out]  # fsarray does not pad rows
    return out


def expected(grid, W, r0, r1, c0, c1, bcells):
    """Returns ('error', None, None) or ('ok', new grid, per-row 'unconstrained from column' or None)."""
    H = max(len(grid), r1)
    g = [list(r) for r in grid] + [[] for _ in range(H - len(grid))]
    if r1 - r0 == 0 or c1 - c0 == 0:
        return "noop", g, None
    if len(bcells) != r1 - r0:
        return "error", g, None
    free = {}
    for k, v in enumerate(bcells):
        r = r0 + k
        row = g[r]
        L = len(row)
        w = c1 - c0
        if L > c1:
            if len(v) > w:
                return "error", g_unchanged(grid, H), None
            new = row[:c0] + v + [BLANK] * (w - len(v)) + row[c1:]
        else:
            new = row[:c0] + [BLANK] * max(0, c0 - L) + v
            if len(v) > w:
                free[r] = c1  # spills into blank space: unconstrained to the right of the region
        if len(new) > W:
            return "error", g_unchanged(grid, H), None
        g[r] = new
    return "ok", g, free


def g_unchanged(grid, H):
    return [list(r) for r in grid] + [[] for _ in range(H - len(grid))]


def check_reads(acc, a, grid, W, case):
    """Every read form against the grid."""
    H = len(grid)
    if a.shape != (H, W) or len(a) != H or a.height != H or a.width != W:
        acc.failure("C04:shape", case, "shape %r, grid %r x %r" % (a.shape, H, W))
        return False
    ok = True
    for r in range(H + 1):
        try:
            got = C.cells(a[r])
            if r >= H:
                acc.failure("C04:read_row_out_of_range_accepted", case, "a[%d]" % r)
                ok = False
            elif strip(got) != strip(grid[r]):
                acc.failure("C04:read_row", dict(case, read="a[%d]" % r), "got %r, cells show %r" % (got, grid[r]))
                ok = False
            if r < H and len(got) > W:
                acc.failure("C04:row_wider_than_array", dict(case, read="a[%d]" % r), "%r" % (got,))
                ok = False
        except IndexError:
            if r < H:
                acc.failure("C04:read_row_raises", dict(case, read="a[%d]" % r), "IndexError")
                ok = False
    for r0 in range(H + 1):
        for r1 in range(r0, H + 2):
            got = [C.cells(x) for x in a[r0:r1]]
            want = grid[r0:r1]
            if [strip(x) for x in got] != [strip(x) for x in want]:
                acc.failure("C04:read_rows", dict(case, read="a[%d:%d]" % (r0, r1)), "got %r want %r" % (got, want))
                ok = False
            for c0 in range(W + 1):
                for c1 in range(c0, W + 1):
                    got = [C.cells(x) for x in a[r0:r1, c0:c1]]
                    want = [row[c0:c1] for row in grid[r0:r1]]
                    if [strip(x) for x in got] != [strip(x) for x in want]:
                        acc.failure("C04:read_region", dict(case, read="a[%d:%d,%d:%d]" % (r0, r1, c0, c1)), "got %r want %r" % (got, want))
                        ok = False
    for r in range(H):
        for c in range(W):
            try:
                got = [C.cells(x) for x in a[r, c]]
            except Exception as ex:  # noqa
                acc.failure("C04:read_cell_raises:" + type(ex).__name__, dict(case, read="a[%d,%d]" % (r, c)), repr(ex))
                ok = False
                continue
            want = [grid[r][c : c + 1]]
            if [strip(x) for x in got] != [strip(x) for x in want]:
                acc.failure("C04:read_cell", dict(case, read="a[%d,%d]" % (r, c)), "got %r want %r" % (got, want))
                ok = False
    return ok


def actions(H, W, sym, thorough):
    """Menu of assignments for an array of height H, width W; sym: fresh letter of this step."""
    out = []
    for r0 in range(0, H + 2):
        for r1 in range(r0, H + 3):
            n = r1 - r0
            if n > 3:
                continue
            for c0 in range(0, W + 1):
                for c1 in range(c0, W + 1):
                    w = c1 - c0
                    lens = sorted(set(list(range(0, w + 2)) + [W - c0 + 1]))
                    for ln in lens:
                        for pal in ((), RED):
                            kinds = ("str", "fmt", "fsarray", "fsarray_slack") if (n <= 1 or thorough) else ("fmt", "fsarray_slack")
                            for kind in kinds:
                                if kind == "str" and pal:
                                    continue
                                rows = [(sym * ln, pal)] * n
                                out.append(("region", r0, r1, c0, c1, kind, tuple(rows)))
                    if n >= 2:
                        # rows of different lengths in one block (first full, second empty, third too long)
                        pattern = [w, 0, w + 1]
                        rows = tuple((sym * pattern[k % 3], RED if k % 2 else ()) for k in range(n))
                        out.append(("region", r0, r1, c0, c1, "mixed", rows))
                        rows = tuple((sym * max(0, w - k), ()) for k in range(n))
                        out.append(("region", r0, r1, c0, c1, "fmt", rows))
                        # every row fits except the LAST one, which reaches past the array edge: nothing of the block may show
                        rows = tuple([(sym * w, RED)] * (n - 1) + [(sym * (W - c0 + 1), ())])
                        out.append(("region", r0, r1, c0, c1, "fmt", rows))
                        out.append(("region", r0, r1, c0, c1, "str", tuple((t, ()) for t, _ in rows)))
                    # wrong number of rows
                    if w > 0:
                        out.append(("region", r0, r1, c0, c1, "fmt", tuple([(sym * w, ())] * (n + 1))))
                        if n >= 1:
                            out.append(("region", r0, r1, c0, c1, "fmt", tuple([(sym * w, ())] * (n - 1))))
            # a[r0:r1] = block (whole width)
            for ln in (0, 1, W, W + 1):
                out.append(("rows", r0, r1, 0, W, "fmt", tuple([(sym * ln, RED)] * n)))
    for r in range(0, H + 2):
        for c in range(0, W):
            out.append(("cell", r, r + 1, c, c + 1, "fmt", ((sym, RED),)))
            out.append(("cell_str", r, r + 1, c, c + 1, "str", ((sym, ()),)))
            out.append(("cell", r, r + 1, c, c + 1, "fmt", ((sym * 2, ()),)))
    return out


def apply(a, act, keep=None):
    form, r0, r1, c0, c1, kind, rows = act
    block = make_block(kind, list(rows))
    if keep is not None:
        keep.append(block)
    if form == "region":
        a[r0:r1, c0:c1] = block
    elif form == "rows":
        a[r0:r1] = block
    elif form == "cell":
        a[r0, c0] = block
    else:
        a[r0, c0] = rows[0][0]


def show_act(act):
    form, r0, r1, c0, c1, kind, rows = act
    return {"form": form, "rows": [r0, r1], "cols": [c0, c1], "block_kind": kind, "block": [[t, dict(a)] for t, a in rows]}


def step(acc, a, grid, W, act, history):
    """Applies one action to the real array `a` (mutated) and returns the new reference grid, or None on a failure."""
    form, r0, r1, c0, c1, kind, rows = act
    bcells = block_cells(kind, list(rows))
    kind_exp, g, free = expected(grid, W, r0, r1, c0, c1, bcells)
    case = {"history": [show_act(h) for h in history], "action": show_act(act), "grid_before": [C.show_cells(r) for r in grid]}
    before = canon(a)
    kept = []
    try:
        apply(a, act, kept)
        raised = None
    except Exception as ex:  # noqa
        raised = ex
    # the block is the caller's object: using it afterwards must not reach into the array (and the array must not have changed it)
    if raised is None and kind in ("fsarray", "fsarray_slack") and kept and hasattr(kept[0], "rows"):
        blk = kept[0]
        now0 = grid_of(a)
        shape0 = a.shape
        blk_rows0 = [C.cells(r) for r in blk.rows]
        want_blk = block_cells(kind, list(rows))
        if [strip(r) for r in blk_rows0] != [strip(r) for r in want_blk]:
            acc.failure("C04:assignment_changed_the_block", case, "block rows now %r" % (blk_rows0,))
        try:
            from curtsies.formatstring import fmtstr as _f

            n0 = len(blk.rows)
            blk[n0 : n0 + 1, 0:0] = [""]  # grows the block by one blank row
            if n0 and blk.num_columns >= 1:
                blk[0] = _f("!")
        except Exception:  # noqa
            pass
        if grid_of(a) != now0 or a.shape != shape0:
            acc.failure("C04:array_aliases_the_assigned_block", case, "after growing / re-assigning a row of the block the array went from %r to %r" % (now0, grid_of(a)))
            return None
    acc.transitions += 1
    acc.outcome(kind_exp + ("/raised" if raised else "/accepted"))
    if kind_exp == "error":
        if raised is None:
            acc.failure("C04:invalid_assignment_accepted", case, "no error; array now %r" % (grid_of(a),))
            return None
        now = grid_of(a)
        old = [strip(r) for r in grid]
        if [strip(r) for r in now[: len(grid)]] != old or any(strip(r) for r in now[len(grid) :]):
            acc.failure("C04:failed_assignment_changed_cells", case, "raised %r but cells went from %r to %r" % (raised, grid, now))
            return None
        # rows appended by the early extend are blank: accept either height
        return [list(r) for r in grid] + [[] for _ in range(len(now) - len(grid))]
    if raised is not None:
        acc.failure("C04:valid_assignment_raises:" + type(raised).__name__, case, repr(raised))
        return None
    now = grid_of(a)
    if len(now) != len(g):
        acc.failure("C04:height_after_assignment", case, "height %d, expected %d" % (len(now), len(g)))
        return None
    for r, (nr, gr) in enumerate(zip(now, g)):
        if len(nr) > W:
            acc.failure("C04:row_wider_than_array", case, "row %d: %r" % (r, nr))
            return None
        lim = free.get(r) if free else None
        if lim is not None:
            if strip(nr[:lim]) != strip(gr[:lim]) and nr[:lim] != gr[:lim]:
                acc.failure("C04:assignment_result", case, "row %d shows %r, expected %r (left of column %d)" % (r, nr, gr, lim))
                return None
            g[r] = list(nr)  # to the right of the region the statement leaves a spilling row unconstrained
        elif strip(nr) != strip(gr):
            acc.failure("C04:assignment_result", case, "row %d shows %r, expected %r" % (r, nr, gr))
            return None
    return g


SHALLOW = set()


def initial_states(thorough):
    from curtsies.formatstringarray import FSArray, fsarray

    out = []
    shapes = [(r, c) for r in range(0, 3) for c in range(0, 4 if thorough else 3)]
    shapes += [(1, 4)] if thorough else [(0, 3), (1, 3)]
    global SHALLOW
    SHALLOW = set()
    for r, c in ([(1, 5), (2, 4), (1, 8)] if thorough else [(1, 5)]):
        shapes.append((r, c))
        SHALLOW.add("FSArray(%d,%d" % (r, c))  # wide shapes (with and without constructor formatting): one level only
    for r, c in shapes:
        out.append(("FSArray(%d,%d)" % (r, c), lambda r=r, c=c: FSArray(r, c)))
        if c >= 2:
            out.append(("FSArray(%d,%d,bg='blue')" % (r, c), lambda r=r, c=c: FSArray(r, c, bg="blue")))
        if (r, c) in ((1, 2), (0, 2)):
            # formatting given positionally (colour names, on_colour names, styles)
            out.append(("FSArray(%d,%d,'blue')" % (r, c), lambda r=r, c=c: FSArray(r, c, "blue")))
            out.append(("FSArray(%d,%d,'on_red','bold')" % (r, c), lambda r=r, c=c: FSArray(r, c, "on_red", "bold")))
    return out


def rebuild(ctor, W, hist):
    """Re-executes a history on a freshly constructed array (real object + reference grid)."""
    a = ctor()
    g = grid_of(a)
    scratch = Acc()
    for i, h in enumerate(hist):
        g = step(scratch, a, g, W, h, hist[:i])
        if g is None:
            return None, None
    return a, g


def expand(args):
    """One BFS level from the given states (each identified by its action history, replayed on a fresh array)."""
    tier, seed, idx, level, hists, part, nparts = args
    thorough = tier == "thorough"
    acc = Acc(seed=seed + idx + level, sample_stride=1999)
    name, ctor = initial_states(thorough)[idx]
    W = ctor().num_columns
    sym = "xyz"[level]
    found = {}
    for hist in hists:
        hist = list(hist)
        a, grid = rebuild(ctor, W, hist)
        if a is None:
            acc.failure("harness:replay_diverges", {"initial": name, "history": [show_act(h) for h in hist]}, "history no longer replays")
            continue
        acc.validated += 1 if hist else 0
        if not hist and part == 0:
            check_reads(acc, a, grid, W, {"initial": name})
            acc.state(hash((name, canon(a))))
        for ai, act in enumerate(actions(len(a.rows), W, sym, thorough)):
            if ai % nparts != part:
                continue
            b = copy_array(a)
            acc.case(True, key=(name, tuple(hist), act), sample=lambda: {"initial": name, "history": [show_act(h) for h in hist], "action": show_act(act)})
            g = step(acc, b, grid, W, act, hist)
            if g is None:
                continue
            k = canon(b)
            if k not in found:
                found[k] = tuple(hist) + (act,)
                # reads are a function of the state: compared once per distinct state (per worker)
                check_reads(acc, b, g, W, {"initial": name, "history": [show_act(h) for h in hist + [act]]})
    return acc.export(), [(k, h) for k, h in found.items()]


# ---------------------------------------------------------------------------------------------------------------------------------
# sessions on ONE live array object (the BFS above re-creates the object for every successor: per-object caches start empty there)


def check_reads_light(acc, a, grid, W, case):
    """Shape, every row, and a fixed menu of region reads (for arrays too tall for check_reads)."""
    H = len(grid)
    if a.shape != (H, W) or len(a) != H:
        acc.failure("C04:shape", case, "shape %r, grid %r x %r" % (a.shape, H, W))
        return False
    now = grid_of(a)
    ok = True
    for r in range(H):
        if strip(now[r]) != strip(grid[r]):
            acc.failure("C04:read_row", dict(case, read="a[%d]" % r), "got %r, cells show %r" % (now[r], grid[r]))
            return False
    rs = sorted({0, 1, H // 2, max(0, H - 2), max(0, H - 1), H})
    for r0 in rs:
        for r1 in sorted({r0, r0 + 1, r0 + 3, H, H + 1, H + 5}):
            if r1 < r0:
                continue
            for c0, c1 in ((0, W), (1, max(1, W - 1)), (0, 1)):
                got = [C.cells(x) for x in a[r0:r1, c0:c1]]
                want = [row[c0:c1] for row in grid[r0:r1]]
                if [strip(x) for x in got] != [strip(x) for x in want]:
                    acc.failure("C04:read_region", dict(case, read="a[%d:%d,%d:%d]" % (r0, r1, c0, c1)), "got %d rows %r want %d rows %r" % (len(got), got[:3], len(want), want[:3]))
                    ok = False
    return ok


def session_tall(args):
    """One assignment that grows the array by many rows: block heights 1..70 at start rows inside / straddling the bottom / beyond."""
    tier, seed, H0, part = args
    from curtsies.formatstringarray import FSArray

    acc = Acc(seed=seed, sample_stride=499)
    W = 4
    top = 120 if tier == "thorough" else 70
    for n in range(1 + part, top + 1, 4):
        for r0 in sorted({0, max(0, H0 - 1), max(0, H0 - 3), H0, H0 + 1, H0 + 26, H0 + 40}):
            for c0, c1 in ((0, W), (1, 3)):
                for kind in ("fmt", "fsarray", "str"):
                    a = FSArray(H0, W)
                    grid = grid_of(a)
                    # something to preserve in the old rows
                    if H0:
                        grid = step(acc, a, grid, W, ("region", 0, H0, 0, 2, "fmt", tuple([("o" * 2, RED)] * H0)), [])
                        if grid is None:
                            continue
                    act = ("region", r0, r0 + n, c0, c1, kind, tuple([("x" * (c1 - c0), () if kind == "str" else RED)] * n))
                    case = {"initial": "FSArray(%d,%d) with 'oo' in every row" % (H0, W), "action": {"rows": [r0, r0 + n], "cols": [c0, c1], "block_kind": kind, "block_rows": n}}
                    acc.case(True, key=("tall", H0, n, r0, c0, c1, kind), sample=case)
                    check_reads_light(acc, a, grid, W, dict(case, when="before"))
                    g = step(acc, a, grid, W, act, [])
                    if g is None:
                        continue
                    acc.state(hash(canon(a)))
                    check_reads_light(acc, a, g, W, dict(case, when="after"))
    return acc.export()


def session_menu(H, W, sym):
    out = [("region", H + 1, H + 3, 0, 1, "fmt", ((sym, RED),)), ("region", H, H + 1, 0, W, "fmt", ((sym * W, RED), (sym, RED)))]  # wrong number of rows
    for r0 in range(0, H + 2):
        for n in (0, 1, 2):
            for c0, c1 in ((0, 0), (0, 1), (0, W), (1, 2)):
                w = c1 - c0
                out.append(("region", r0, r0 + n, c0, c1, "fmt", tuple([(sym * w, RED)] * n)))
    return out


def session_same_object(args):
    """Every history of <= depth assignments from a reduced menu (cells, whole rows, writes further down, empty-width regions that
    only grow the array) on ONE object, with every read form taken on that same object before the first and after every assignment."""
    tier, seed, shape, part, nparts = args
    from curtsies.formatstringarray import FSArray

    acc = Acc(seed=seed, sample_stride=1999)
    H0, W = shape
    depth = 3 if tier == "thorough" else 2

    def bottom_reads(a, grid, Hold, case):
        """The reads around the (old) bottom of the array - the last thing done before an assignment and the first thing after it,
        so that a bounded read cache still holds them."""
        ok = True
        for r0 in sorted({max(0, Hold - 1), Hold}):
            for r1 in (Hold, Hold + 1, Hold + 2):
                if r1 < r0:
                    continue
                for c0, c1 in ((0, W), (0, 1), (min(1, W), W)):
                    got = [C.cells(x) for x in a[r0:r1, c0:c1]]
                    want = [row[c0:c1] for row in grid[r0:r1]]
                    if [strip(x) for x in got] != [strip(x) for x in want]:
                        acc.failure("C04:read_region", dict(case, read="a[%d:%d,%d:%d]" % (r0, r1, c0, c1)), "got %d rows %r want %d rows %r" % (len(got), got, len(want), want))
                        ok = False
        return ok

    def rec(hist):
        a = FSArray(H0, W)
        grid = grid_of(a)
        case0 = {"initial": "FSArray(%d,%d)" % shape, "same_object": True}
        if not check_reads(acc, a, grid, W, dict(case0, history=[])):
            return None
        bottom_reads(a, grid, len(grid), dict(case0, history=[]))
        for i, act in enumerate(hist):
            Hold = len(grid)
            grid = step(acc, a, grid, W, act, hist[:i])
            if grid is None:
                return None
            case = dict(case0, history=[show_act(h) for h in hist[: i + 1]])
            if not bottom_reads(a, grid, Hold, dict(case, reads="around the old bottom, first thing after the assignment")):
                return None
            if not check_reads(acc, a, grid, W, case):
                return None
            bottom_reads(a, grid, len(grid), case)
        return len(grid)

    def walk(hist, H):
        for ai, act in enumerate(session_menu(H, W, "xyz"[len(hist)])):
            if not hist and ai % nparts != part:
                continue
            h2 = hist + [act]
            acc.case(True, key=("same", shape, tuple(h2)), sample=lambda: {"initial": "FSArray(%d,%d)" % shape, "history": [show_act(h) for h in h2], "reads": "all forms, same object, after every step"})
            H2 = rec(h2)
            if H2 is not None and len(h2) < depth and H2 <= H0 + 4:
                walk(h2, H2)

    walk([], H0)
    return acc.export()


PAINT = [
    {"fg": 32, "invert": True}, {"invert": True}, {"fg": 31, "invert": True}, {"bg": 44}, {"underline": True}, {"fg": 32, "bold": True, "invert": True},
    {"fg": 33}, {"bold": True}, {"dark": True, "invert": True}, {}, {"blink": True, "invert": True}, {"fg": 32, "underline": True, "invert": True},
]


def session_paint(args):
    """Long histories on one object: a 3 x 16 array painted cell by cell / pair by pair for 130 writes with a cycling palette in which
    blanks carry inverse video + colour, background, underline ...; every cell compared after every write."""
    tier, seed, rot = args
    from curtsies.formatstringarray import FSArray

    acc = Acc(seed=seed, sample_stride=997)
    H, W = 3, 16
    nwrites = 260 if tier == "thorough" else 130
    for texts in ("spaces", "alternate", "letters"):
        for wid in (1, 2, 3):
            for stride in (1, 5):
                a = FSArray(H, W)
                grid = grid_of(a)
                hist = []
                dead = False
                for k in range(nwrites):
                    pos = (k * stride * wid) % (H * W)
                    r, c0 = divmod(pos, W)
                    c1 = min(W, c0 + wid)
                    att = PAINT[(k + rot) % len(PAINT)]
                    ch = " " if texts == "spaces" or (texts == "alternate" and k % 2 == 0) else "abcdefgh"[k % 8]
                    act = ("region", r, r + 1, c0, c1, "fmt", ((ch * (c1 - c0), tuple(sorted(att.items()))),))
                    acc.case(True, key=("paint", rot, texts, wid, stride, k))
                    grid = step(acc, a, grid, W, act, hist[-3:])
                    if grid is None:
                        dead = True
                        break
                    hist.append(act)
                    case = {"session": {"palette_rotation": rot, "texts": texts, "region_width": wid, "stride": stride}, "writes_so_far": k + 1, "last_write": show_act(act)}
                    if not check_reads_light(acc, a, grid, W, case):
                        dead = True
                        break
                if not dead:
                    acc.state(hash(canon(a)))
                    check_reads(acc, a, grid, W, {"session": {"palette_rotation": rot, "texts": texts, "region_width": wid, "stride": stride}, "writes": nwrites}) if W <= 4 else None
    return acc.export()


def session_very_wide(args):
    """Arrays thousands of columns wide: a block written far to the right of where a row's content ends (the gap is padded), next
    to the right edge, and over existing content; widths just below / above round numbers and powers of two."""
    tier, seed, W = args
    from curtsies.formatstringarray import FSArray

    acc = Acc(seed=seed, sample_stride=97)
    for H0 in (1, 2):
        for content_end in (0, 3, W // 2):
            for c0 in sorted({1, 5, W // 2 + 1, W - 40, W - 4, W - 3, 100, 255, 256, 1023, 1024, 4095, 4096, 8191, 8192, 8193, 8200, 9999, 10000, 16383, 16384, 16385, 65535, 65536, 65540}):
                if not (0 <= c0 <= W - 3):
                    continue
                a = FSArray(H0, W)
                grid = grid_of(a)
                if content_end:
                    grid = step(acc, a, grid, W, ("region", 0, 1, 0, content_end, "fmt", (("o" * content_end, RED),)), [])
                    if grid is None:
                        continue
                for r0 in (0, H0):
                    act = ("region", r0, r0 + 1, c0, c0 + 3, "fmt", (("xyz", RED),))
                    case = {"initial": "FSArray(%d,%d), row 0 holds %d characters" % (H0, W, content_end), "action": {"rows": [r0, r0 + 1], "cols": [c0, c0 + 3]}}
                    acc.case(True, key=("wide", W, H0, content_end, c0, r0), sample=case)
                    g = step(acc, a, grid, W, act, [])
                    if g is None:
                        break
                    grid = g
                    now = grid_of(a)
                    row = now[r0]
                    if [c for c, _ in row[c0 : c0 + 3]] != ["x", "y", "z"] or len(row) > W:
                        acc.failure("C04:assignment_result", case, "columns %d..%d of row %d show %r" % (c0, c0 + 3, r0, row[c0 : c0 + 3]))
                    got = [C.cells(x) for x in a[r0 : r0 + 1, c0 - 1 : c0 + 4]]
                    want = [grid[r0][c0 - 1 : c0 + 4]]
                    if [strip(x) for x in got] != [strip(x) for x in want]:
                        acc.failure("C04:read_region", dict(case, read="a[%d:%d,%d:%d]" % (r0, r0 + 1, c0 - 1, c0 + 4)), "got %r want %r" % (got, want))
    return acc.export()


def session_many_runs(args):
    """One row painted cell by cell until it holds hundreds of runs whose neighbours have the same attribute NAMES with different
    values (red / blue, on_red / on_blue, bold on red / bold on blue): every cell compared after every write."""
    tier, seed, variant = args
    from curtsies.formatstringarray import FSArray

    acc = Acc(seed=seed, sample_stride=199)
    W = 700 if tier == "thorough" else 400
    pals = [((("fg", 31),), (("fg", 34),)), ((("bg", 41),), (("bg", 44),)), ((("bold", True), ("fg", 31)), (("bold", True), ("fg", 34))), ((("fg", 31),), (("fg", 34),), (("fg", 32),))][variant]
    a = FSArray(2, W)
    grid = grid_of(a)
    order = list(range(0, W, 2)) + list(range(1, W, 2)) if variant % 2 else list(range(W))
    for k, c in enumerate(order):
        att = pals[c % len(pals)]
        act = ("region", 0, 1, c, c + 1, "fmt", (("abcdefg"[c % 7], att),))
        acc.case(True, key=("runs", variant, k))
        grid = step(acc, a, grid, W, act, [])
        if grid is None:
            break
        if k % 16 == 15 or k > len(order) - 4:
            case = {"session": "one row painted cell by cell", "palette": variant, "writes_so_far": k + 1, "runs_in_row_0": len(a.rows[0].chunks)}
            if not check_reads_light(acc, a, grid, W, case):
                break
    return acc.export()


def check_fsarray_ctor(acc):
    from curtsies.formatstring import fmtstr
    from curtsies.formatstringarray import fsarray

    texts = ["", "a", "ab", "abc"]
    for n in range(0, 3):
        for rows in itertools.product(texts, repeat=n):
            for width in (None, 0, 1, 2, 3, 4):
                for kind in ("str", "fmt", "str+bg", "generator", "tuple"):
                    case = {"fsarray": list(rows), "width": width, "kind": kind}
                    acc.case(n > 0, key=("ctor", rows, width, kind), sample=case)
                    acc.transitions += 1
                    if kind == "fmt":
                        vals = [fmtstr(t, "red") for t in rows]
                        want = [[(c, RED) for c in t] for t in rows]
                        kw = {}
                    elif kind in ("str", "generator", "tuple"):
                        vals, kw = list(rows), {}
                        want = [[(c, ()) for c in t] for t in rows]
                        if kind == "generator":
                            vals = (t for t in rows)  # one-shot iterable (the documentation passes generators to fsarray)
                        elif kind == "tuple":
                            vals = tuple(rows)
                    else:
                        vals, kw = list(rows), {"bg": "blue"}
                        want = [[(c, (("bg", 44),)) for c in t] for t in rows]
                    too_long = width is not None and any(len(t) > width for t in rows)
                    try:
                        a = fsarray(vals, width, **kw) if width is not None else fsarray(vals, **kw)
                    except ValueError:
                        if not too_long:
                            acc.failure("C04:fsarray_raises", case, "ValueError")
                        continue
                    except Exception as ex:  # noqa
                        acc.failure("C04:fsarray_raises:" + type(ex).__name__, case, repr(ex))
                        continue
                    if too_long:
                        acc.failure("C04:fsarray_too_long_accepted", case, "")
                        continue
                    W = width if width is not None else (max(len(t) for t in rows) if rows else 0)
                    if a.shape != (n, W) or [strip(C.cells(r)) for r in a.rows] != [strip(w) for w in want]:
                        acc.failure("C04:fsarray_result", case, "shape %r rows %r" % (a.shape, [C.cells(r) for r in a.rows]))
                        continue
                    check_reads(acc, a, want, W, case)


def check_zero_width(acc):
    """Rows whose surplus over the region / array edge consists of zero-width characters are still too long by cell count."""
    from curtsies.formatstring import fmtstr
    from curtsies.formatstringarray import FSArray

    for W in (2, 3, 4):
        for text in ("x\u0301", "xy\u0301", "\u0301", "xyz\u200d", "x\u200f\u0301"):
            for c0 in range(0, W + 1):
                for c1 in range(c0 + 1, W + 1):
                    for pre in ("", "ab"[: W]):
                        a = FSArray(1, W)
                        if pre:
                            a[0:1, 0 : len(pre)] = [pre]
                        grid = grid_of(a)
                        case = {"width": W, "prefilled": pre, "cols": [c0, c1], "block": [text]}
                        acc.case(True, key=("zw", W, text, c0, c1, pre), sample=case)
                        acc.transitions += 1
                        v = [(ch, ()) for ch in text]
                        kind_exp, g, free = expected(grid, W, 0, 1, c0, c1, [v])
                        try:
                            a[0:1, c0:c1] = [fmtstr(text)]
                            raised = False
                        except Exception:  # noqa
                            raised = True
                        now = grid_of(a)
                        if any(len(r) > W for r in now):
                            acc.failure("C04:row_wider_than_array", case, "rows %r" % (now,))
                        elif kind_exp == "error" and not raised:
                            acc.failure("C04:invalid_assignment_accepted", case, "rows %r" % (now,))
                        elif kind_exp == "error" and [strip(r) for r in now] != [strip(r) for r in grid]:
                            acc.failure("C04:failed_assignment_changed_cells", case, "")
                        elif kind_exp == "ok" and raised:
                            acc.failure("C04:valid_assignment_raises", case, "")


def run(ctx):
    rep = Report()
    n = len(initial_states(ctx.thorough))
    depth = 3 if ctx.thorough else 2
    seen = {i: set() for i in range(n)}
    frontier = {i: [()] for i in range(n)}
    for level in range(depth):
        shards = []
        for i in range(n):
            hs = frontier[i]
            if level == 0:
                shards += [(ctx.tier, ctx.seed, i, level, hs, p, 8) for p in range(8)]
            else:
                chunk = max(1, len(hs) // 48)
                shards += [(ctx.tier, ctx.seed, i, level, hs[j : j + chunk], 0, 1) for j in range(0, len(hs), chunk)]
        shards.sort(key=lambda sh: -len(sh[4]))
        nxt = {i: [] for i in range(n)}
        for sh, (d, found) in zip(shards, ctx.pmap(expand, shards)):
            rep.merge(d, "assignment_histories_level_%d" % (level + 1))
            i = sh[2]
            for k, h in found:
                if k not in seen[i]:
                    seen[i].add(k)
                    rep.state_hashes.add(hash((i, k)))
                    if len(k[1]) <= 4:
                        nxt[i].append(h)
        if ctx.thorough and level == 1:
            for i in range(n):
                if len(nxt[i]) > 250:
                    nxt[i] = nxt[i][:: max(1, len(nxt[i]) // 250)]
                    rep.extra["depth3_frontier_subsampled"] = 1
        frontier = nxt
        names = [nm for nm, _ in initial_states(ctx.thorough)]
        for i in range(n):
            if any(names[i].startswith(pre) for pre in SHALLOW):
                frontier[i] = []
    for d in ctx.pmap(session_tall, [(ctx.tier, ctx.seed, H0, part) for H0 in (0, 1, 3, 10) for part in range(4)]):
        rep.merge(d, "one_object_tall_growth")
    shapes = [(2, 3), (3, 4)] if ctx.thorough else [(2, 3)]
    for d in ctx.pmap(session_same_object, [(ctx.tier, ctx.seed, sh, p, 12) for sh in shapes for p in range(12)]):
        rep.merge(d, "one_object_reads_between_assignments")
    for d in ctx.pmap(session_many_runs, [(ctx.tier, ctx.seed, v) for v in range(4)]):
        rep.merge(d, "rows_of_hundreds_of_runs")
    for d in ctx.pmap(session_very_wide, [(ctx.tier, ctx.seed, W) for W in (300, 1030, 4100, 8200, 10010, 16390, 65550, 70001)]):
        rep.merge(d, "arrays_thousands_of_columns_wide")
    for d in ctx.pmap(session_paint, [(ctx.tier, ctx.seed, rot) for rot in range(len(PAINT))]):
        rep.merge(d, "one_object_painting_sessions")
    acc = Acc(seed=ctx.seed)
    check_fsarray_ctor(acc)
    rep.merge(acc, "fsarray_constructor")
    acc = Acc(seed=ctx.seed)
    check_zero_width(acc)
    rep.merge(acc, "zero_width_characters")
    rep.exhaustive = not rep.extra.get("depth3_frontier_subsampled")
    rep.rule = (
        "BFS from FSArray(r,c) for r in 0..2, c in 0..%d (+ 1x3 quick, 1x4 thorough; with/without constructor formatting) over the menu: a[r0:r1,c0:c1]=block for every "
        "0<=r0<=r1<=H+2 (<=3 rows), 0<=c0<=c1<=W, block rows of every length 0..w+1 and one reaching past the array edge, 2-palette, given as "
        "list of str / list of FmtStr / FSArray / mixed, rows of different lengths, one row too few/many; a[r0:r1]=block; a[r,c]=[..] and "
        "a[r,c]='x'; fresh symbol per step; depth %d with deduplication on the rows' run structure; all read forms compared in every "
        "successor; plus fsarray(strings, width) for all lists of <=2 strings; plus sessions on ONE live object: every read form before and after every "
        "assignment of every history of <= %d assignments from a 48-entry menu (incl. empty-width regions that only grow the array), one block of "
        "1..%d rows at 7 start rows (inside / straddling / beyond the bottom) x 2 column ranges x 3 block kinds on 4 initial heights, and 108 "
        "painting sessions of %d writes (12-format palette incl. inverse-video blanks). transitions = assignments executed; states = distinct arrays"
        % (3 if ctx.thorough else 2, 3 if ctx.thorough else 2, 3 if ctx.thorough else 2, 120 if ctx.thorough else 70, 260 if ctx.thorough else 130)
    )
    rep.bounds = {"depth": 3 if ctx.thorough else 2}
    rep.assumptions = [
        "blank = absent cell or unformatted space", "an over-long block row that only spills into blank space inside the width is unconstrained to the right of the region",
        "'an error' = any exception; rows appended before a failing assignment are blank and do not count as changed cells",
        "negative indices, steps, numpy blocks and a[r] = v are outside",
    ]
    return rep
