"""C15 - str methods on a FmtStr agree with str on its text (DESIGN.md 4/C15).

Space  : every text of length <= N over {a, B, -, space, newline} (+ a small \\r family for splitlines), every cut into <= 3 runs
         (empty runs included) with palette P3; a curated list of str methods x argument pools.
Oracle : text / non-text answer / exception type identical to the str method on f.s;
         split / splitlines pieces: every character carries the attributes it had in f (positions from a reference split);
         every result: no attribute on any character that no run of f had;
         delegated str / list results and the fill forms of ljust/rjust: every character carries every attribute shared by all
         characters of f.
"""
import itertools
import re

from mc import cells as C
from mc import repeat
from mc.runner import Acc, Report

LEVEL = "model_checking"
SIGMA = ("a", "B", "-", " ", "\n")

DELEGATED = [
    ("upper", ()), ("lower", ()), ("swapcase", ()), ("title", ()), ("capitalize", ()), ("casefold", ()),
    ("strip", ()), ("strip", ("a",)), ("strip", ("- ",)), ("lstrip", ()), ("lstrip", ("a-",)), ("rstrip", ()), ("rstrip", ("B\n",)),
    ("center", ("LEN+3",)), ("center", ("LEN+2", "*")), ("center", (0,)), ("zfill", ("LEN+2",)), ("zfill", (1,)), ("expandtabs", ()),
    ("replace", ("a", "X")), ("replace", ("-", "")), ("replace", ("aB", "-")), ("replace", ("", ".")), ("replace", ("a", "XY", 1)),
    ("removeprefix", ("a",)), ("removeprefix", ("-a",)), ("removesuffix", ("a",)), ("removesuffix", (" ",)),
    ("find", ("a",)), ("find", ("-",)), ("find", ("aB",)), ("find", ("x",)), ("rfind", ("a",)), ("rfind", ("x",)),
    ("index", ("a",)), ("index", ("x",)), ("rindex", ("-",)), ("rindex", ("x",)), ("count", ("a",)), ("count", ("",)), ("count", ("--",)),
    ("startswith", ("a",)), ("startswith", ("",)), ("startswith", (("a", "-"),)), ("endswith", ("a",)), ("endswith", ("\n",)),
    ("isalpha", ()), ("isspace", ()), ("isupper", ()), ("islower", ()), ("isdigit", ()),
    ("partition", ("-",)), ("partition", ("a",)), ("rpartition", ("-",)), ("rpartition", ("aB",)),
    ("rsplit", ("-",)), ("rsplit", ()), ("rsplit", (None, 1)), ("rsplit", ("a", 1)),
]

# the last four of each list are the SAME strings, used once as a literal separator and once as a pattern
SPLIT_SEPS = ("-", "a", "--", "aB", " ", "x", "\n", "a|-", ".", "-+", "[aB]")
SPLIT_RES = ("-+", "[aB]", r"\s", r"a|-", ".", "a", "-", "(?:a)|B")


def resolve(args, n):
    out = []
    for a in args:
        if isinstance(a, str) and a.startswith("LEN+"):
            out.append(n + int(a[4:]))
        else:
            out.append(a)
    return tuple(out)


def shared_of_chars(fc):
    if not fc:
        return None
    sets = [set(a) for _, a in fc]
    return set.intersection(*sets)


def check_formatting(acc, sig, case, got_cells, run_atts, shared, need_shared):
    for c, a in got_cells:
        for p in a:
            if p not in run_atts:
                acc.failure("C15:alien_formatting:" + sig, case, "character %r shows %r which no run of the original had" % (c, p))
                return
        if need_shared and shared is not None and not shared.issubset(set(a)):
            acc.failure("C15:shared_formatting_lost:" + sig, case, "character %r has %r, shared by all original characters: %r" % (c, a, sorted(shared)))
            return


def sc_join(sep_cells, items):
    out = []
    for i, it in enumerate(items):
        if i:
            out += sep_cells
        out += it
    return out


def check_value(acc, spec, thorough):
    f = C.build(spec)
    fc = C.cells(f)
    text = "".join(c for c, _ in fc)
    n = len(text)
    run_atts = set()
    for _, a in spec:
        run_atts.update(C.norm_atts(dict(a)))
    shared = shared_of_chars(fc)
    shown = C.show_spec(spec)
    snap = C.snapshot(f)

    def one(sig, label, call, ref, kind):
        case = {"f": shown, "call": label}
        acc.case(n > 0, key=(spec, label), sample=case)
        acc.transitions += 1
        try:
            want = ref()
            want_exc = None
        except Exception as ex:  # noqa
            want, want_exc = None, type(ex).__name__
        try:
            got = call()
            got_exc = None
        except Exception as ex:  # noqa
            got, got_exc = None, type(ex).__name__
        if want_exc or got_exc:
            if want_exc != got_exc:
                acc.failure("C15:exception_mismatch:" + sig, case, "str: %r, FmtStr: %r" % (want_exc, got_exc))
            acc.outcome("exception")
            return None, None
        return want, got

    # the dict shared_atts hands out belongs to the caller: editing it must not leak into later results
    try:
        d_ = f.shared_atts
        d_["bold"] = True
        d_["fg"] = 36
        d_.pop("bg", None)
    except Exception as ex:  # noqa
        acc.failure("C15:exception_mismatch:shared_atts", {"f": shown}, repr(ex))
    # --- native split ---------------------------------------------------------------------------
    def pieces_check(sig, label, got, bounds):
        case = {"f": shown, "call": label}
        if not isinstance(got, list) or len(got) != len(bounds):
            acc.failure("C15:pieces_count:" + sig, case, "got %r, expected %d pieces" % (got, len(bounds)))
            return
        for piece, (a, b) in zip(got, bounds):
            pc = C.cells(piece)
            if [c for c, _ in pc] != [c for c, _ in fc[a:b]]:
                acc.failure("C15:pieces_text:" + sig, case, "got %r expected %r" % ([x.s for x in got], [text[x:y] for x, y in bounds]))
                return
            if pc != fc[a:b]:
                acc.failure("C15:pieces_formatting:" + sig, case, "piece %r has %r, those characters had %r" % (piece.s, pc, fc[a:b]))
                return
            check_formatting(acc, sig, case, pc, run_atts, shared, False)

    for sep in SPLIT_SEPS:
        label = "split(%r)" % sep
        want, got = one("split", label, lambda: f.split(sep), lambda: text.split(sep), "pieces")
        if want is None:
            continue
        bounds, pos = [], 0
        while True:
            i = text.find(sep, pos)
            if i < 0:
                bounds.append((pos, n))
                break
            bounds.append((pos, i))
            pos = i + len(sep)
        assert [text[a:b] for a, b in bounds] == want
        pieces_check("split", label, got, bounds)
    for pat in SPLIT_RES:
        label = "split(%r, regex=True)" % pat
        want, got = one("split_regex", label, lambda: f.split(pat, regex=True), lambda: re.split(pat, text), "pieces")
        if want is None:
            continue
        bounds, pos = [], 0
        for m in re.finditer(pat, text):
            bounds.append((pos, m.start()))
            pos = m.end()
        bounds.append((pos, n))
        assert [text[a:b] for a, b in bounds] == want
        pieces_check("split_regex", label, got, bounds)
    for keep in (False, True):
        label = "splitlines(%r)" % keep if keep else "splitlines()"
        want, got = one("splitlines", label, (lambda: f.splitlines(True)) if keep else (lambda: f.splitlines()), lambda: text.splitlines(keep), "pieces")
        if want is None:
            continue
        bounds, pos = [], 0
        for full, bare in zip(text.splitlines(True), text.splitlines()):
            bounds.append((pos, pos + (len(full) if keep else len(bare))))
            pos += len(full)
        pieces_check("splitlines" + ("_keepends" if keep else ""), label, got, bounds)
    # --- join: f as separator and as (reused) item -----------------------------------------------------------------
    from curtsies.formatstring import fmtstr as _fmtstr

    other = _fmtstr("q", "green")
    for label, make in (
        ("f.join([other, 'k', other])", lambda: (f.join([other, "k", other]), text.join(["q", "k", "q"]), sc_join(fc, [C.cells(other), [("k", ())], C.cells(other)]))),
        ("other.join([f, f])", lambda: (other.join([f, f]), "q".join([text, text]), sc_join(C.cells(other), [fc, fc]))),
        ("other.join([f, 'k', f]) again", lambda: (other.join([f, "k", f]), "q".join([text, "k", text]), sc_join(C.cells(other), [fc, [("k", ())], fc]))),
        ("fmtstr('').join([f, other])", lambda: (_fmtstr("").join([f, other]), text + "q", fc + C.cells(other))),
        ("fmtstr('').join([f, other]) again", lambda: (_fmtstr("").join([f, other]), text + "q", fc + C.cells(other))),
        ("fmtstr(', ').join(generator of str)", lambda: (_fmtstr(", ").join(x for x in ["a", "b", text]), ", ".join(["a", "b", text]), [(c, ()) for c in ", ".join(["a", "b", text])])),
        ("fmtstr('-').join(map(str, ...)) with f later", lambda: (_fmtstr("-").join(iter(["p", f, "q"])), "-".join(["p", text, "q"]), [("p", ()), ("-", ())] + fc + [("-", ()), ("q", ())])),
    ):
        case = {"f": shown, "call": label}
        acc.case(n > 0, key=(spec, label), sample=case)
        acc.transitions += 1
        try:
            got, want_text, want_cells = make()
        except Exception as ex:  # noqa
            acc.failure("C15:exception_mismatch:join", case, repr(ex))
            continue
        if got.s != want_text:
            acc.failure("C15:text:join", case, "got %r expected %r" % (got.s, want_text))
        elif C.cells(got) != want_cells:
            acc.failure("C15:pieces_formatting:join", case, "got %r expected %r" % (C.cells(got), want_cells))
    if C.cells(other) != [("q", (("fg", 32),))]:
        acc.failure("C15:operand_changed", {"f": shown}, "join changed an item")
    # --- derived value: operands used first (their shared formatting computed), then concatenated with an empty operand ----------
    try:
        empty = _fmtstr("")
        empty.upper(), f.upper(), empty.ljust(1, "*"), f.ljust(n + 1, "*")
        for label, h in (("(fmtstr('') + f).upper()", empty + f), ("(f + fmtstr('')).upper()", f + empty), ("(f + f).center(2n+2)", f + f)):
            hc = C.cells(h)
            hshared = shared_of_chars(hc)
            got = h.upper() if "upper" in label else h.center(2 * n + 2)
            want_text = h.s.upper() if "upper" in label else h.s.center(2 * n + 2)
            case = {"f": shown, "call": label}
            acc.case(n > 0, key=(spec, label), sample=case)
            acc.transitions += 1
            if got.s != want_text:
                acc.failure("C15:text:derived", case, "got %r expected %r" % (got.s, want_text))
            else:
                check_formatting(acc, "derived", case, C.cells(got), run_atts, hshared, True)
    except Exception as ex:  # noqa
        acc.failure("C15:exception_mismatch:derived", {"f": shown}, repr(ex))
    # --- ljust / rjust ----------------------------------------------------------------------------
    for meth in ("ljust", "rjust"):
        for w in (range(0, n + 3) if n <= 60 else (0, n - 1, n, n + 1, n + 2, n + 17)):
            for fill in (None, "*"):
                args = (w,) if fill is None else (w, fill)
                label = "%s%r" % (meth, args)
                want, got = one(meth, label, lambda: getattr(f, meth)(*args), lambda: getattr(text, meth)(*args), "text")
                if want is None:
                    continue
                gc = C.cells(got)
                if "".join(c for c, _ in gc) != want:
                    acc.failure("C15:text:" + meth, {"f": shown, "call": label}, "got %r expected %r" % (got.s, want))
                    continue
                check_formatting(acc, meth + ("_fill" if fill else ""), {"f": shown, "call": label}, gc, run_atts, shared, fill is not None)
    # --- delegated --------------------------------------------------------------------------------
    for name, args0 in DELEGATED:
        args = resolve(args0, n)
        label = "%s%r" % (name, args)
        want, got = one(name, label, lambda: getattr(f, name)(*args), lambda: getattr(text, name)(*args), "any")
        if want is None and got is None:
            continue
        case = {"f": shown, "call": label}
        if isinstance(want, str):
            if isinstance(got, str) or not hasattr(got, "chunks"):
                acc.failure("C15:result_type:" + name, case, "got %r" % (got,))
                continue
            gc = C.cells(got)
            if got.s != want:
                acc.failure("C15:text:" + name, case, "got %r expected %r" % (got.s, want))
                continue
            check_formatting(acc, name, case, gc, run_atts, shared, True)
        elif isinstance(want, list):
            if not isinstance(got, list) or [getattr(g, "s", g) for g in got] != want:
                acc.failure("C15:text:" + name, case, "got %r expected %r" % (got, want))
                continue
            for g in got:
                if hasattr(g, "chunks"):
                    check_formatting(acc, name, case, C.cells(g), run_atts, shared, True)
        else:
            if got != want or type(got) is not type(want):
                acc.failure("C15:answer:" + name, case, "got %r expected %r" % (got, want))
        acc.outcome(type(want).__name__)
    if C.snapshot(f) != snap:
        acc.failure("C15:operand_changed", {"f": shown}, "")


def texts(maxlen):
    for n in range(maxlen + 1):
        for t in itertools.product(SIGMA, repeat=n):
            yield "".join(t)


# case mappings that change the length of the text, or differ between upper / title / casefold
CASE_TEXTS = ("stra\u00dfe", "\ufb01n a", "\u0130stanbul", "\u01f0a", "\u0149 b", "\u1e9e-\u00df", "\u03a3\u03c2 \u03c3", "a\u0345b", "\u01c5a \u01c6", "\u2160\u2170 x")
CR_TEXTS = ("a\r\nB", "a\rB", "\r\n", "a\n\r", "\r", "a\x0bB", "a\x0cB\x1c", "a B", "a\x85", "\r\r\n\n")


def shard(args):
    tier, seed, idx, nshards = args
    acc = Acc(seed=seed, sample_stride=99991)
    thorough = tier == "thorough"
    full, two = (4, 5) if thorough else (3, 4)
    i = 0
    for t in texts(two):
        max_runs = 3 if len(t) <= full else 2
        for spec in C.cuts(t, max_runs=max_runs):
            if i % nshards == idx:
                check_value(acc, spec, thorough)
                acc.state(hash(spec))
            i += 1
    if idx == 0:
        for t in CR_TEXTS + CASE_TEXTS:
            for spec in C.cuts(t, max_runs=2):
                check_value(acc, spec, thorough)
    # every character of Latin-1 (and the neighbours of U+2028/U+2029) as a would-be line boundary: str.splitlines breaks on exactly
    # \n \r \x0b \x0c \x1c \x1d \x1e \x85 U+2028 U+2029 - and on nothing next to them
    cps = [c for c in list(range(0, 0x100)) + [0x2027, 0x2028, 0x2029, 0x202A] if c not in (0x1B, 0x9B)]
    for k, cp in enumerate(cps):
        if k % nshards != idx:
            continue
        ch = chr(cp)
        for t in ("a" + ch + "B", ch + "a", "a" + ch, "a" + ch + ch + "B", "a" + ch + "\nB" + ch):
            for spec in C.cuts(t, max_runs=2):
                check_value(acc, spec, thorough)
    for si, spec in enumerate(C.exotic_specs() + C.huge_specs() + C.scale_specs(thorough)[::3]):
        if si % nshards == idx:
            check_value(acc, spec, thorough)
    return acc.export()


def run(ctx):
    rep = Report()
    repeat.run_into(ctx, rep, "C15")
    ns = 64 if not ctx.thorough else 256
    for d in ctx.pmap(shard, [(ctx.tier, ctx.seed, i, ns) for i in range(ns)]):
        rep.merge(d)
    rep.validated = rep.n
    full, two = (4, 5) if ctx.thorough else (3, 4)
    rep.rule = (
        "every text over {a,B,-,space,newline} of length <= %d cut into <= 3 runs (empty runs included, palette P3) and of length %d cut into "
        "<= 2 runs, plus a \\r / unicode line-boundary family for splitlines; per value: split with %d separators and %d regexes, splitlines "
        "(keepends False/True), ljust/rjust for every width 0..len+2 with and without fill, %d delegated method/argument combinations. "
        "Distinct by construction; non-trivial = text non-empty; states = distinct values; transitions = method calls"
        % (full, two, len(SPLIT_SEPS), len(SPLIT_RES), len(DELEGATED))
    )
    rep.bounds = {"full_cut_len": full, "two_run_len": two}
    rep.assumptions = [
        "split() without separator, maxsplit, empty separator, encode, format are not checked",
        "ljust/rjust without fill: only same text and no alien formatting (existing tests pin that padding carries only the shared background)",
        "the zero-run value is outside the property's quantifier",
    ]
    return rep


def replay(ctx, case):
    acc = Acc()
    spec = tuple((t, tuple(sorted(a.items()))) for t, a in case["f"])
    check_value(acc, spec, True)
    return [(s, e["cases"][0]["message"]) for s, e in acc.fail.items()]
