"""C03 - key decoding splits any byte stream losslessly into correctly named keys (DESIGN.md 4/C03).

(1) explicit-state exploration of the decoder's decision tree (mc/decoder.py) for ascii, latin-1, utf-8, three naming modes, both
    'more bytes buffered' and 'buffer exhausted';
(2) stream level, through the real Input._send.find_key (Input.unget_bytes + send(0), encoding substituted): every table sequence
    followed by every byte, every ordered pair of table sequences, every Unicode scalar value alone / after 'a' / before 'a', in the
    situations 'all buffered' and 'buffer exhausted after each unit'.
"""
import itertools

from mc import decoder as D
from mc.runner import Acc, Report

LEVEL = "model_checking"
PREFIX = "C03:"


class _Dummy:
    encoding = "utf-8"

    def fileno(self):
        raise RuntimeError("the decoder check must never reach the input stream")


def decode_stream(ref, enc, bursts, mode):
    import curtsies.input as ci

    ci.getpreferredencoding = lambda: enc
    inp = ci.Input(in_stream=_Dummy(), keynames=mode, sigint_event=False)
    keys = []
    for burst in bursts:
        inp.unget_bytes(burst)
        while inp.unprocessed_bytes:
            keys.append(inp.send(0))
    return keys


def unit_ok(ref, enc, u):
    return u in ref.T or D.Ref.is_char(enc, u)


def is_meta_only(ref, enc, u):
    return len(u) == 1 and u[0] >= 0x80 and not D.Ref.is_char(enc, u)


def stream_valid(ref, enc, units, bursts_end):
    """units: intended decomposition; bursts_end: set of unit indices that end a read."""
    for i, u in enumerate(units):
        if not unit_ok(ref, enc, u):
            return False
        if is_meta_only(ref, enc, u) or (enc == "utf-8" and len(u) == 1 and u[0] >= 0x80):
            # 8-bit Meta byte: only as a whole keypress (the previous unit must have been cut off: not a table prefix) ...
            if i > 0 and (i - 1) not in bursts_end and units[i - 1] in ref.P:
                return False
            # ... and under utf-8 only when it ends a read
            if enc == "utf-8" and i not in bursts_end:
                return False
    return True


def name_of(ref, enc, u):
    if u in ref.CURTSIES:
        return ref.CURTSIES[u]
    return u.decode(enc)


def check_stream(ref, acc, enc, units, situation, label):
    stream = b"".join(units)
    if situation == "all_buffered":
        bursts = [stream]
        ends = {len(units) - 1}
    else:
        bursts = list(units)
        ends = set(range(len(units)))
    valid = stream_valid(ref, enc, units, ends)
    case = {"encoding": enc, "units": [u.hex() for u in units], "situation": situation, "family": label}
    acc.case(valid, key=(enc, stream, situation, label))
    acc.transitions += 2
    try:
        got_b = decode_stream(ref, enc, bursts, ref.modes[2])
        exc = None
    except Exception as ex:  # noqa
        got_b, exc = None, ex
    if exc is not None:
        if valid:
            sig = "C03:stream_raises:" + type(exc).__name__
            if enc == "utf-8" and isinstance(exc, UnicodeDecodeError) and situation == "all_buffered" and any(
                units[i] in ref.P and 0xC2 <= units[i + 1][0] <= 0xF4 for i in range(len(units) - 1)
            ):
                sig = "C03:O6_utf8_table_prefix_then_multibyte_lead_byte_raises_UnicodeDecodeError"
            acc.failure(sig, case, repr(exc))
        acc.outcome("exception/" + ("valid" if valid else "outside"))
        return
    if b"".join(got_b) != stream:
        acc.failure("C03:O7_stream_not_lossless", case, "returned %r" % (got_b,))
        return
    if not valid:
        acc.outcome("ok/outside")
        return
    # exact cut when no unit (but the last of a read) is the beginning of a longer recognised sequence
    exact = all((u not in ref.P) or (i in ends) for i, u in enumerate(units))
    if exact:
        if got_b != list(units):
            acc.failure("C03:stream_cut_wrong", case, "cut as %r" % ([g.hex() for g in got_b],))
            return
        try:
            got_n = decode_stream(ref, enc, bursts, ref.modes[0])
        except Exception as ex:  # noqa
            acc.failure("C03:stream_raises_in_curtsies_mode:" + type(ex).__name__, case, repr(ex))
            return
        want = [name_of(ref, enc, u) for u in units]
        if got_n != want:
            acc.failure("C03:stream_names_wrong", case, "got %r expected %r" % (got_n, want))
        acc.outcome("exact")
    else:
        acc.outcome("merge_allowed")


def shard_tree(args):
    tier, seed, enc, root_hex, mode = args
    ref = D.Ref()
    acc = Acc(seed=seed)
    root = bytes.fromhex(root_hex)
    alphabet = D.ALPHABETS[mode]
    D.explore(ref, acc, enc, root, lambda depth: alphabet)
    return acc.export()


def lead_mode(tier, b):
    """How the subtree under utf-8 lead byte b >= 0xE0 is explored: complete ('full') or through boundary representatives of
    the 17 UTF-8 byte classes at every continuation position."""
    thorough = tier == "thorough"
    if b < 0xF0:
        return "full"
    if b < 0xF8:
        return "full" if thorough else "reps"
    if b < 0xFC:
        return "reps" if thorough else "first"
    return "first" if thorough else "few"


def tree_shards(tier, seed):
    shards = []
    for enc in ("ascii", "latin-1"):
        for b in range(256):
            shards.append((tier, seed, enc, "%02x" % b, "full"))
    for b in range(256):
        if b < 0xE0:
            shards.append((tier, seed, "utf-8", "%02x" % b, "full"))
        else:
            mode = lead_mode(tier, b)
            for c in D.ALPHABETS[mode]:
                shards.append((tier, seed, "utf-8", "%02x%02x" % (b, c), mode))
    return shards


def shard_lead_only(args):
    """Evaluates the single-byte states whose subtrees were split into two-byte shards."""
    tier, seed = args
    ref = D.Ref()
    acc = Acc(seed=seed)
    for b in range(0xE0, 0x100):
        D.evaluate(ref, acc, "utf-8", bytes([b]))
        acc.add("nodes")
    return acc.export()


ALIASES = {
    "ascii": ("ANSI_X3.4-1968", "US-ASCII", "646", "us_ascii", "ASCII"),
    "latin-1": ("iso-8859-1", "latin1", "ISO8859-1", "L1", "iso8859_1"),
    "utf-8": ("UTF-8", "utf8", "U8", "utf_8", "UTF8"),
}


def node_results(ref, enc, seq):
    lst = [seq[i : i + 1] for i in range(len(seq))]
    out = []
    for mode in ref.modes:
        for full in (False, True):
            try:
                out.append(("key", ref.events.get_key(lst, enc, keynames=mode, full=full)))
            except Exception as ex:  # noqa
                out.append(("exc", type(ex).__name__))
    return out


def shard_alias(args):
    """The same encoding under another name must decode identically: the canonical name's tree is walked and every state is also
    evaluated under the alias (locale.getpreferredencoding() reports e.g. 'ANSI_X3.4-1968' for ascii in the C locale)."""
    tier, seed, canonical, alias, first = args
    ref = D.Ref()
    acc = Acc(seed=seed)
    stack = [bytes([first])]
    while stack:
        seq = stack.pop()
        a = node_results(ref, canonical, seq)
        b = node_results(ref, alias, seq)
        acc.case(True, key=(alias, seq), sample=lambda: {"encoding": alias, "canonical": canonical, "seq": seq.hex()})
        acc.transitions += 12
        if a != b:
            acc.failure("C03:encoding_alias_decodes_differently", {"encoding": alias, "canonical": canonical, "seq": seq.hex()}, "%r vs %r" % (b, a))
            continue
        if a[0] == ("key", None) and len(seq) <= ref.MAX and (canonical != "utf-8" or seq[0] < 0xE0):
            stack.extend(seq + bytes([x]) for x in range(256))
    return acc.export()


def shard_history(args):
    """Decoding is a function of (bytes, encoding, naming mode, full): the same call must give the same answer whatever was decoded
    before in the same process (module-level caches).  Single bytes and table sequences are decoded under every ordering of the
    encodings and naming modes."""
    tier, seed, part = args
    import itertools as it

    ref = D.Ref()
    acc = Acc(seed=seed)
    seqs = [bytes([b]) for b in range(256)] + sorted(k for k in ref.T if len(k) > 1) + sorted(ref.P) + ["ß".encode(), "∂".encode(), "😀".encode()]
    seqs = seqs[part::4]
    first_seen = {}
    orders = list(it.permutations(D.ENCODINGS))
    mode_orders = list(it.permutations(range(3)))
    for oi, encs in enumerate(orders):
        modes = mode_orders[oi % len(mode_orders)]
        for seq in seqs:
            lst = [seq[i : i + 1] for i in range(len(seq))]
            for enc in encs:
                for mi in modes:
                    for full in (True, False):
                        try:
                            r = ("key", ref.events.get_key(lst, enc, keynames=ref.modes[mi], full=full))
                        except Exception as ex:  # noqa
                            r = ("exc", type(ex).__name__)
                        key = (seq, enc, mi, full)
                        acc.case(True, key=(oi,) + key)
                        acc.transitions += 1
                        if key not in first_seen:
                            first_seen[key] = r
                        elif first_seen[key] != r:
                            acc.failure("C03:decoding_depends_on_history", {"seq": seq.hex(), "encoding": enc, "mode": mi, "full": full}, "first %r, later %r" % (first_seen[key], r))
    # held-down keys: RUN identical calls in a row (same bytes, encoding, naming mode, full) before the next encoding is tried -
    # anything that warms up only on repetition (a memo, an adaptive fast path) is warm when the other encodings ask
    RUN = 40
    for oi, encs in enumerate(orders):
        modes = mode_orders[(oi + 1) % len(mode_orders)]
        for seq in seqs:
            lst = [seq[i : i + 1] for i in range(len(seq))]
            for mi in modes:
                for full in (False, True):
                    for enc in encs:
                        key = (seq, enc, mi, full)
                        for rep in range(RUN):
                            try:
                                r = ("key", ref.events.get_key(lst, enc, keynames=ref.modes[mi], full=full))
                            except Exception as ex:  # noqa
                                r = ("exc", type(ex).__name__)
                            acc.transitions += 1
                            if first_seen[key] != r:
                                acc.failure("C03:decoding_depends_on_history", {"seq": seq.hex(), "encoding": enc, "mode": mi, "full": full, "after_identical_calls": rep, "encoding_order": list(encs)}, "first %r, later %r" % (first_seen[key], r))
                                break
                        acc.case(True, key=("run", oi) + key)
    # one list OBJECT reused by the caller: its contents replaced in place by a sequence one element longer whose earlier elements
    # differ, with no other call in between - the answer must be the one a fresh list gets
    pool = sorted({bytes(k) for k in ref.P if len(k) <= 4} | {bytes(k) for k in ref.T if len(k) <= 5} | {b"a", b"\x1b", b"[", b"A", "é".encode(), "∂".encode(), b"\x1b[", b"[A", b"\x1bO", b"OP"})
    by_len = {}
    for q in pool:
        by_len.setdefault(len(q), []).append(q)
    shared = []
    npairs = 0
    for n_ in sorted(by_len):
        for ai, A_ in enumerate(by_len[n_]):
            longer = by_len.get(n_ + 1, [])
            for B_ in longer[(ai + part) % 3 :: 3]:
                if B_[:n_] == A_:
                    continue  # earlier contents must differ
                for mi in range(3):
                    for full in (False, True):
                        for enc in ("utf-8", "latin-1")[: 1 + (npairs % 2)]:
                            npairs += 1
                            shared[:] = [A_[i : i + 1] for i in range(len(A_))]
                            try:
                                ref.events.get_key(shared, enc, keynames=ref.modes[mi], full=full)
                            except Exception:  # noqa
                                pass
                            shared[:] = [B_[i : i + 1] for i in range(len(B_))]
                            try:
                                r = ("key", ref.events.get_key(shared, enc, keynames=ref.modes[mi], full=full))
                            except Exception as ex:  # noqa
                                r = ("exc", type(ex).__name__)
                            try:
                                want = ("key", ref.events.get_key([B_[i : i + 1] for i in range(len(B_))], enc, keynames=ref.modes[mi], full=full))
                            except Exception as ex:  # noqa
                                want = ("exc", type(ex).__name__)
                            acc.transitions += 3
                            if r != want:
                                acc.failure("C03:decoding_depends_on_history", {"seq": B_.hex(), "previous_contents_of_the_same_list_object": A_.hex(), "encoding": enc, "mode": mi, "full": full}, "reused list %r, fresh list %r" % (r, want))
    acc.case(True, key=("list_reuse", part), n=max(1, npairs))
    # the process has now decoded everything in every order: the per-state oracles (and the mode lock-step of C20) must still hold
    for seq in seqs:
        for enc in D.ENCODINGS:
            D.evaluate(ref, acc, enc, seq)
    return acc.export()


def shard_debug_logging(args):
    """The program has switched on DEBUG logging (root logger and 'curtsies' loggers, no output handler): the decoder must behave the
    same.  History pass (part 0) and the scalar streams of the first planes, with logging on for the duration of this shard."""
    tier, seed, which = args
    import logging

    loggers = [logging.getLogger(), logging.getLogger("curtsies"), logging.getLogger("curtsies.events"), logging.getLogger("curtsies.input")]
    old = [(lg, lg.level, lg.disabled) for lg in loggers]
    handler = logging.NullHandler()
    logging.getLogger().addHandler(handler)
    prev_disable = logging.root.manager.disable
    logging.disable(logging.NOTSET)
    for lg in loggers:
        lg.setLevel(logging.DEBUG)
        lg.disabled = False
    try:
        if which == 0:
            return shard_history((tier, seed, 0))
        if which == 1:
            return shard_streams_scalars((tier, seed, 0x0, 0x3000, 7))
        if which == 2:
            return shard_streams_scalars((tier, seed, 0x1F000, 0x20000, 5))
        return shard_streams_table((tier, seed, "utf-8", which))
    finally:
        for lg, lvl, dis in old:
            lg.setLevel(lvl)
            lg.disabled = dis
        logging.getLogger().removeHandler(handler)
        logging.disable(prev_disable)


def shard_paste(args):
    """The decoder as driven by Input's paste loop (multi-kilobyte bursts read 1 024 bytes at a time): a recognised sequence or a
    character lying across a read boundary must still come out whole.  Reuses C08's virtual kernel and large-burst scenarios."""
    tier, seed, idx = args
    from mc import vk
    from mc.props import c08

    acc = Acc(seed=seed)
    scns = [s_ for s_ in c08.family_large(tier == "thorough") if s_["paste_threshold"] is not None and s_["paste_threshold"] <= 100]
    for si in range(idx, len(scns), 8):
        scn = scns[si]
        obs, fails, meta = c08.run_scenario(scn, vk.Chooser(()))
        acc.case(True, key=("paste", si), sample={"burst_bytes": len(scn["script"][0][1]), "units": len(scn["units"])})
        acc.transitions += 1
        for sig, msg in fails:
            if "cut_wrong" in sig or "out_of_order" in sig or sig.startswith("C08:send_raises"):
                acc.failure("C03:paste_loop_breaks_up_a_keypress", {"burst_bytes": len(scn["script"][0][1]), "first_units": [u.hex() for u in scn["units"][:6]]}, "%s: %s" % (sig, msg))
    # bytes buffered inside the Input while its context is left and entered again (type-ahead, leftovers that are a sequence prefix):
    # the stream must still come out without a byte lost (C08's lifecycle scenarios, default schedule)
    life = [s_ for s_ in c08.family_lifecycle(tier == "thorough") if c08.usable(s_)]
    for si in range(idx, len(life), 8):
        scn = life[si]
        obs, fails, meta = c08.run_scenario(scn, vk.Chooser(()))
        acc.case(True, key=("life", si), sample=c08.show(scn))
        acc.transitions += 1
        for sig, msg in fails:
            if "not_everything_delivered" in sig or "out_of_order" in sig or sig.startswith("C08:send_raises") or "lost_wakeup" in sig or "none_although" in sig:
                acc.failure("C03:stream_not_lossless_through_input", c08.show(scn), "%s: %s" % (sig, msg))
    return acc.export()


def shard_streams_table(args):
    tier, seed, enc, idx = args
    ref = D.Ref()
    acc = Acc(seed=seed)
    keys = sorted(ref.T)
    for i in range(idx, len(keys), 16):
        k1 = keys[i]
        for b in range(256):
            for sit in ("all_buffered", "exhausted_after_each_unit"):
                check_stream(ref, acc, enc, [k1, bytes([b])], sit, "table+byte")
        for k2 in keys:
            for sit in ("all_buffered", "exhausted_after_each_unit"):
                check_stream(ref, acc, enc, [k1, k2], sit, "table+table")
        # a table sequence followed by a (multi-byte) character, and between two characters
        for ch in ("a", "\u00e9", "\u2202", "\U0001f600"):
            try:
                cb = ch.encode(enc)
            except UnicodeEncodeError:
                continue
            for sit in ("all_buffered", "exhausted_after_each_unit"):
                check_stream(ref, acc, enc, [k1, cb], sit, "table+char")
                check_stream(ref, acc, enc, [cb, k1], sit, "char+table")
                check_stream(ref, acc, enc, [cb, k1, cb], sit, "char+table+char")
    return acc.export()


def shard_streams_scalars(args):
    tier, seed, lo, hi, step = args
    ref = D.Ref()
    acc = Acc(seed=seed)
    a = b"a"
    for cp in range(lo, hi):
        if 0xD800 <= cp <= 0xDFFF:
            continue
        c = chr(cp).encode("utf-8")
        encs = ["utf-8"]
        if cp < 0x100:
            encs.append("latin-1")
        if cp < 0x80:
            encs.append("ascii")
        for enc in encs:
            cb = chr(cp).encode(enc)
            check_stream(ref, acc, enc, [cb], "all_buffered", "scalar")
            if step == 1 or cp % step == 0 or cp < 0x3000:
                for units in ([a, cb], [cb, a], [cb, cb]):
                    for sit in ("all_buffered", "exhausted_after_each_unit"):
                        check_stream(ref, acc, enc, units, sit, "scalar+a")
    return acc.export()


def run(ctx, keep=PREFIX):
    rep = Report()
    for d in ctx.pmap(shard_tree, tree_shards(ctx.tier, ctx.seed), chunksize=1):
        rep.merge(d, "decision_tree")
    rep.merge(shard_lead_only((ctx.tier, ctx.seed)), "decision_tree")
    nodes = rep.extra.get("nodes", 0)
    alias_shards = [(ctx.tier, ctx.seed, canon, al, b) for canon, als in ALIASES.items() for al in (als if ctx.thorough else als[:3]) for b in range(256)]
    for d in ctx.pmap(shard_alias, alias_shards, chunksize=16):
        rep.merge(d, "encoding_aliases")
    for d in ctx.pmap(shard_history, [(ctx.tier, ctx.seed, i) for i in range(4)]):
        rep.merge(d, "history_independence")
    for d in ctx.pmap(shard_paste, [(ctx.tier, ctx.seed, i) for i in range(8)]):
        rep.merge(d, "paste_loop")
    for d in ctx.pmap(shard_debug_logging, [(ctx.tier, ctx.seed, i) for i in range(6)]):
        rep.merge(d, "debug_logging_switched_on")
    for d in ctx.pmap(shard_streams_table, [(ctx.tier, ctx.seed, enc, i) for enc in D.ENCODINGS for i in range(16)]):
        rep.merge(d, "streams_table")
    step = 1 if ctx.thorough else 64
    chunks = [(ctx.tier, ctx.seed, lo, min(lo + 0x2000, 0x110000), step) for lo in range(0, 0x110000, 0x2000)]
    for d in ctx.pmap(shard_streams_scalars, chunks):
        rep.merge(d, "streams_scalars")
    # keep only this property's signatures (the exploration also evaluates the other property's clauses)
    rep.fail = {k: v for k, v in rep.fail.items() if k.startswith(keep) or k.startswith("harness:")}
    rep.states_override = nodes
    rep.validated = rep.n
    rep.exhaustive = False
    rep.rule = (
        "decision tree: every state = byte string whose proper prefixes all made get_key(full=False) return None; complete for ascii, latin-1 "
        "and for utf-8 lead bytes < 0x%s (all 256 next bytes at every state); %s; transitions = real get_key calls (3 modes x 2 values of "
        "full per state). Streams through the real find_key: every table sequence + every byte, every ordered pair of table sequences, every "
        "Unicode scalar value alone and (every %s) next to 'a' and doubled, all-buffered and exhausted-after-each-unit. History: all 6 orders "
        "of the encodings x naming-mode orders call by call, then runs of 40 identical calls before each switch of encoding; 15 encoding "
        "aliases; the paste loop over the C08 large-burst scenarios. non-trivial = the "
        "state/stream is a prefix of a valid stream (table sequences and validly encoded characters)"
        % ("F8" if ctx.thorough else "F0",
           "obsolete lead bytes 0xF8-0xFD by boundary representatives of the 17 UTF-8 byte classes (sound because for sequences starting >= 0x80 get_key "
           "depends on the bytes only through the stdlib decoder's classes, table membership of the single byte, and bit tests on the lead byte)"
           + ("" if ctx.thorough else "; 4-byte leads 0xF0-0xF7 by the same representatives in the quick tier"),
           "one" if ctx.thorough else "64th above U+3000")
    )
    rep.caps = []
    rep.bounds = {"max_keypress_size": 7, "utf8_complete_below_lead": "0xF8" if ctx.thorough else "0xF0"}
    rep.assumptions = [
        "tables are taken from the code as data; a handful of documented names are pinned as anchors",
        "valid stream = concatenation of table sequences and validly encoded characters; an 8-bit Meta byte counts only as a whole keypress and, under utf-8, only at the end of a read",
        "a character split by a read boundary (full=True on a partial character) is C08's subject",
    ]
    return rep
