"""C07 - CursorAwareWindow keeps history intact and accounts for every scroll (DESIGN.md 4/C07).

Explicit-state search (DFS with snapshot/restore of window + reference terminal) over render histories.
Initial states: terminals (h, w) with k = 0..h+2 distinct pre-existing lines printed the ordinary way (cursor on row min(k, h-1)), and a
second family with the cursor parked on any row and junk on and below it; keep_last_line x hide_cursor.  The window is entered for real:
Cbreak on a pty slave, the cursor query answered by the reference terminal's DSR through a scripted in_stream.
Actions: render(array, cursor_pos) with array heights 0..h+2, rows from {empty, one character, full width} with content distinct per step
and row, cursor on the first / last array cell; finally exit (from every state).
Oracle in every successor (n = len(array), s = max(0, T + n - h)): scrollback grew by exactly s lines; scrollback + rows above the new
top T' = max(0, T - s) still start with the original history, unaltered; return value == max(0, s - T); rows T'.. show array[ret:], all
rows below blank; top_usable_row == T'; cursor at (T' + cursor_row - ret, cursor_col) when that is >= 0; visibility; SGR default.
"""
import itertools
import os
import termios

from mc.runner import Acc, Report
from mc.term import BLANK, Term, TermError, expand_cells
from mc import winharness as WH

LEVEL = "model_checking"


class ScriptIn:
    encoding = "utf-8"

    def __init__(self, fd):
        self.fd = fd
        self.q = []
        self.reads = 0

    def fileno(self):
        return self.fd

    def push(self, s):
        self.q.extend(s)

    def read(self, n=1):
        self.reads += 1
        if not self.q:
            raise RuntimeError("cursor position report requested but the terminal did not answer")
        return self.q.pop(0)


class World:
    def __init__(self, keep, hide):
        from curtsies.window import CursorAwareWindow

        self.proxy = WH.Proxy()
        self.proxy.set_size(3, 3)
        self.inp = ScriptIn(self.proxy.slave)
        self.keep, self.hide = keep, hide
        self.win = CursorAwareWindow(out_stream=self.proxy, in_stream=self.inp, keep_last_line=keep, hide_cursor=hide)
        self.fresh = WH.snapshot(self.win)
        self.base_attrs = termios.tcgetattr(self.proxy.slave)

    def enter(self, term):
        WH.restore(self.win, self.fresh)
        termios.tcsetattr(self.proxy.slave, termios.TCSANOW, self.base_attrs)
        self.proxy.term = term
        term.answer = self.inp.push
        self.proxy.set_size(term.h, term.w)
        del self.inp.q[:]
        self.win.__enter__()
        return self.save()

    def save(self):
        return (WH.snapshot(self.win), self.proxy.term)

    def load(self, st):
        snap, term = st
        WH.restore(self.win, snap)
        t = term.copy()
        t.answer = self.inp.push
        self.proxy.term = t
        del self.inp.q[:]
        return t

    def close(self):
        self.proxy.close()


def initial_terms(h, w):
    """(description, terminal) - k pre-existing lines printed the ordinary way; cursor parked on a row with junk on and below it."""
    out = []
    for k in range(0, h + 3):
        t = Term(h, w)
        text = "".join(("%d" % (i % 10)) * min(w, 1 + i % w) + "\r\n" for i in range(k))
        t.feed(text)
        out.append(({"kind": "printed_lines", "k": k, "bytes": text}, t))
    for row in range(0, h):
        t = Term(h, w)
        for y in range(h):
            for x in range(w):
                t.main[y][x] = ("HJ"[y >= row], (("fg", 35),) if y >= row else ())
        t.r, t.c = row, min(1, w - 1)
        t.scrollback = [[("S", ())] * w]
        out.append(({"kind": "parked_over_junk", "row": row}, t))
    return out


def history_lines(term, T):
    return [tuple(r) for r in term.scrollback] + [tuple(r) for r in term.main[:T]]


def make_array(h, w, n, pattern, step):
    """Rows as cell tuples; content distinct per step and row."""
    rows = []
    for i in range(n):
        ch = chr(ord("a") + (step * 7 + i) % 26)
        kind = pattern[i % len(pattern)]
        text = "" if kind == 0 else (ch if kind == 1 else ch * w)
        att = (("fg", 31),) if (i + step) % 2 else ()
        rows.append(tuple((c, att) for c in text))
    return tuple(rows)


PATTERNS = ((2,), (1,), (0, 1, 2), (2, 0))


def menu(h, w, step, npat):
    out = []
    for n in range(0, h + 3):
        for pat in PATTERNS[:npat]:
            arr = make_array(h, w, n, pat, step)
            curs = {(0, 0)}
            if n:
                curs.add((n - 1, max(0, len(arr[n - 1]) - 1)))
                curs.add((0, max(0, len(arr[0]) - 1)))
            for cur in sorted(curs):
                out.append((arr, cur))
            if n == 0:
                break
    return out


def build_rows(arr):
    from mc.props.c02 import build_row

    return [build_row(r) for r in arr]


def show_arr(arr):
    return ["".join(c for c, _ in r) for r in arr]


def pyte_agrees(acc, term, init_bytes, written, case):
    """Second opinion on the terminal model: the same bytes fed to pyte.HistoryScreen must give the same screen, cursor and scrollback."""
    import pyte

    screen = pyte.HistoryScreen(term.w, term.h, history=100000, ratio=0.00001)
    stream = pyte.Stream(screen)
    stream.feed(init_bytes)
    stream.feed(written)
    import unicodedata as _ud

    rows = [_ud.normalize("NFC", line).rstrip() for line in screen.display]
    mine = [_ud.normalize("NFC", r).rstrip() for r in term.text_rows()]
    px = min(screen.cursor.x, term.w - 1)
    hist = [_ud.normalize("NFC", "".join(line[x].data for x in range(term.w))).rstrip() for line in screen.history.top]
    mine_hist = [_ud.normalize("NFC", "".join(c for c, _ in r)).rstrip() for r in term.scrollback]
    if rows != mine or (screen.cursor.y, px) != (term.r, term.c) or hist != mine_hist:
        acc.failure("harness:terminal_model_disagrees_with_pyte", case, "pyte %r cursor %r history %r; model %r cursor %r history %r" % (rows, (screen.cursor.y, px), hist, mine, (term.r, term.c), mine_hist))
        return False
    acc.add("pyte_agreements")
    return True


def check_render(acc, world, st, T, hist0, arr, cur, case, pyte_ctx=None):
    """Runs one render from state st; returns (new state, new T) or None."""
    term = world.load(st)
    if pyte_ctx is not None:
        world.proxy.log = []
    h, w = term.h, term.w
    before_sb = len(term.scrollback)
    before_screen = [tuple(r) for r in term.main]
    try:
        ret = world.win.render_to_terminal(build_rows(arr), cur)
    except TermError as ex:
        acc.failure("C07:unknown_terminal_sequence", case, repr(ex))
        return None
    except Exception as ex:  # noqa
        acc.failure("C07:render_raises:" + type(ex).__name__, case, repr(ex))
        return None
    n = len(arr)
    s = max(0, T + n - h)
    T2 = max(0, T - s)
    want_ret = max(0, s - T)
    if term.in_alt:
        acc.failure("C07:entered_alternate_screen", case, "")
        return None
    if len(term.scrollback) - before_sb != s:
        acc.failure("C07:scrolled_wrong_amount", case, "scrolled %d line(s), the array does not fit by %d" % (len(term.scrollback) - before_sb, s))
        return None
    if [tuple(r) for r in term.scrollback[before_sb:]] != before_screen[:s][: len(term.scrollback) - before_sb] and s <= h:
        # what entered scrollback must be what was on the top rows (rows of this render that scroll off are checked through `shown` below)
        entered = [tuple(r) for r in term.scrollback[before_sb:]]
        if entered[: min(s, T)] != before_screen[: min(s, T)]:
            acc.failure("C07:history_altered", case, "lines entering scrollback %r, top rows were %r" % (entered, before_screen[:s]))
            return None
    hl = history_lines(term, T2)
    if hl[: len(hist0)] != hist0:
        acc.failure("C07:history_altered", case, "history now %r, was %r" % (hl[: len(hist0)], hist0))
        return None
    if ret != want_ret:
        acc.failure("C07:return_value", case, "returned %r, expected %r (T=%d, n=%d, h=%d)" % (ret, want_ret, T, n, h))
        return None
    shown = [expand_cells(r) for r in arr[want_ret:]]  # one entry per terminal column
    for y in range(T2, h):
        i = y - T2
        for x in range(w):
            want = shown[i][x] if (i < len(shown) and x < len(shown[i])) else BLANK
            if term.main[y][x] != want:
                acc.failure("C07:screen_differs_from_array", case, "cell (%d,%d) shows %r, expected %r; screen %r" % (y, x, term.main[y][x], want, term.text_rows()))
                return None
    if world.win.top_usable_row != T2:
        acc.failure("C07:top_usable_row", case, "top_usable_row=%r expected %r" % (world.win.top_usable_row, T2))
        return None
    cr = T2 + cur[0] - want_ret
    if cr >= 0 and (term.r, term.c) != (cr, cur[1]):
        acc.failure("C07:cursor_position", case, "cursor at (%d,%d), expected (%d,%d)" % (term.r, term.c, cr, cur[1]))
        return None
    if term.visible != (not world.hide):
        acc.failure("C07:cursor_visibility", case, "visible=%r" % term.visible)
        return None
    if term.st.atts() != ():
        acc.failure("C07:graphic_state_left_set", case, repr(term.st.atts()))
        return None
    if pyte_ctx is not None:
        written = pyte_ctx[1] + "".join(world.proxy.log)
        world.proxy.log = None
        if pyte_ctx[2]:
            pyte_agrees(acc, term, pyte_ctx[0], written, case)
        return world.save(), T2, written
    return world.save(), T2, ""


def check_exit(acc, world, st, T, hist0, case):
    term = world.load(st)
    h = term.h
    r0 = term.r
    before = [tuple(r) for r in term.scrollback] + [tuple(r) for r in term.main]
    sb0 = len(term.scrollback)
    try:
        world.win.__exit__(None, None, None)
    except Exception as ex:  # noqa
        acc.failure("C07:exit_raises:" + type(ex).__name__, case, repr(ex))
        return
    acc.transitions += 1
    after = [tuple(r) for r in term.scrollback] + [tuple(r) for r in term.main]
    above = len(term.scrollback) + term.r  # number of lines above the cursor row now
    if after[: min(above, sb0 + r0)] != before[: min(above, sb0 + r0)]:
        acc.failure("C07:exit_altered_lines_above_cursor", case, "before %r after %r" % (before, after))
    if after[: len(hist0)] != hist0:
        acc.failure("C07:history_altered", dict(case, at="exit"), "")
    if not term.visible:
        acc.failure("C07:exit_leaves_cursor_hidden", case, "")
    if termios.tcgetattr(world.proxy.slave) != world.base_attrs:
        acc.failure("C07:exit_tty_attributes", case, "")


def explore(args):
    tier, seed, h, w, keep, hide, depth, npat, init_lo, init_hi = args
    thorough = tier == "thorough"
    acc = Acc(seed=seed, sample_stride=3571)
    world = World(keep, hide)
    inits = initial_terms(h, w)[init_lo:init_hi]
    for desc, term0 in inits:
        base = {"size": [h, w], "keep_last_line": keep, "hide_cursor": hide, "initial": {k: v for k, v in desc.items() if k != "bytes"}}
        T0 = term0.r
        hist0 = history_lines(term0, T0)
        use_pyte = desc["kind"] == "printed_lines"
        world.proxy.log = [] if use_pyte else None
        try:
            st0 = world.enter(term0.copy())
        except Exception as ex:  # noqa
            acc.failure("C07:enter_raises:" + type(ex).__name__, base, repr(ex))
            continue
        if world.win.top_usable_row != T0:
            acc.failure("C07:top_usable_row", dict(base, at="enter"), "%r != %r" % (world.win.top_usable_row, T0))
            continue
        acc.state(hash((h, w, keep, hide, str(desc))))
        entered = "".join(world.proxy.log) if use_pyte else ""
        world.proxy.log = None

        def rec(st, T, hist, step, written=entered, last=None):
            check_exit(acc, world, st, T, hist0, dict(base, history=hist))
            if step >= depth:
                return
            options = list(menu(h, w, step, npat))
            if last is not None:
                options.append(last)  # the same array and cursor again, unchanged (idle redraw)
            for arr, cur in options:
                case = dict(base, history=hist, render=show_arr(arr), cursor=list(cur))
                acc.case(T + len(arr) > h or step > 0, key=(h, w, keep, hide, str(desc), tuple(map(str, hist)), arr, cur), sample=case)
                acc.transitions += 1
                # pyte second opinion: every render in the thorough tier, every 5th in quick (and only for initial screens that
                # were produced by printing, which pyte can reproduce from bytes)
                pc = None
                if use_pyte:
                    pc = (desc["bytes"], written, thorough or acc.n % 5 == 0)
                res = check_render(acc, world, st, T, hist0, arr, cur, case, pc)
                if res is None:
                    continue
                new, T2, written2 = res
                acc.state(hash((h, w, keep, hide, str(desc), new[1].canon(), WH.canon_window(new[0]))))
                rec(new, T2, hist + [[show_arr(arr), list(cur)]], step + 1, written2, (arr, cur))

        rec(st0, T0, [], 0)
    world.close()
    acc.validated = acc.n
    return acc.export()


def explore_long(args):
    """One window, hundreds of renders in a row (menu entries taken with a stride; every 10th render repeats the previous one):
    anything that counts renders, ages a cache or accumulates scroll bookkeeping meets its threshold."""
    tier, seed, h, w, keep, hide, k0, stride = args
    acc = Acc(seed=seed, sample_stride=499)
    world = World(keep, hide)
    desc, term0 = [(d, t) for d, t in initial_terms(h, w) if d["kind"] == "printed_lines" and d["k"] == k0][0]
    base = {"size": [h, w], "keep_last_line": keep, "hide_cursor": hide, "initial": {"kind": "printed_lines", "k": k0}, "family": "one window, hundreds of renders", "stride": stride}
    T0 = term0.r
    hist0 = history_lines(term0, T0)
    try:
        st = world.enter(term0.copy())
    except Exception as ex:  # noqa
        acc.failure("C07:enter_raises:" + type(ex).__name__, base, repr(ex))
        return acc.export()
    T = T0
    n = 900 if tier == "thorough" else 300
    last = None
    tail = []
    for step in range(n):
        options = list(menu(h, w, step, 4))
        arr, cur = options[(step * stride) % len(options)]
        if last is not None and step % 10 == 9:
            arr, cur = last
        case = dict(base, step=step, last_renders=tail[-3:], render=show_arr(arr), cursor=list(cur))
        acc.case(True, key=("long", h, w, keep, hide, k0, stride, step), sample=case)
        acc.transitions += 1
        res = check_render(acc, world, st, T, hist0, arr, cur, case, None)
        if res is None:
            break
        st, T, _ = res
        last = (arr, cur)
        tail.append([show_arr(arr), list(cur)])
        if step % 50 == 49:
            check_exit(acc, world, st, T, hist0, dict(base, step=step))
    world.close()
    acc.validated = acc.n
    return acc.export()


def std_fds_session(k0, keep):
    """Runs in an interpreter of its own: the terminal (a pty) is put on descriptors 0 and 1 - where the standard streams live - and
    the window is given stream OBJECTS of its own on those numbers (not sys.__stdin__ / sys.__stdout__).  A short session of renders;
    returns an exported Acc."""
    import sys

    m, s = os.openpty()
    os.dup2(s, 0)
    os.dup2(s, 1)
    os.close(s)
    os.openpty = lambda: (m, 1)
    g = globals()

    base_cls = g["ScriptIn"]

    class In0(base_cls):
        def __init__(self, fd):
            base_cls.__init__(self, 0)

    g["ScriptIn"] = In0
    acc = Acc(seed=0)
    h, w = 3, 4
    world = World(keep, True)
    desc, term0 = [(d, t) for d, t in initial_terms(h, w) if d["kind"] == "printed_lines" and d["k"] == k0][0]
    base = {"size": [h, w], "keep_last_line": keep, "hide_cursor": True, "initial": {"kind": "printed_lines", "k": k0}, "family": "terminal on descriptors 0 and 1, own stream objects",
            "std_streams": [getattr(sys.__stdin__, "fileno", lambda: None)() if sys.__stdin__ else None, getattr(sys.__stdout__, "fileno", lambda: None)() if sys.__stdout__ else None]}
    T0 = term0.r
    hist0 = history_lines(term0, T0)
    try:
        st = world.enter(term0.copy())
    except Exception as ex:  # noqa
        acc.failure("C07:enter_raises:" + type(ex).__name__, base, repr(ex))
        return acc.export()
    if world.win.top_usable_row != T0:
        acc.failure("C07:top_usable_row", dict(base, at="enter"), "%r != %r" % (world.win.top_usable_row, T0))
        return acc.export()
    T = T0
    for step in range(8):
        options = list(menu(h, w, step, 4))
        arr, cur = options[(step * 5 + k0) % len(options)]
        case = dict(base, step=step, render=show_arr(arr), cursor=list(cur))
        acc.case(True, key=("stdfds", k0, keep, step), sample=case)
        acc.transitions += 1
        res = check_render(acc, world, st, T, hist0, arr, cur, case, None)
        if res is None:
            break
        st, T, _ = res
    else:
        check_exit(acc, world, st, T, hist0, dict(base, step="exit"))
    return acc.export()


WIDE_TEXTS = ("", "こ", "こん", "aこb", "e\u0301te\u0301", "abcde", "こんa", "こんに", "a\u200db", "xこ\u0301y")


def explore_wide(args):
    """Rows containing double-width and zero-width characters (each row at most w-1 columns wide, so that no row ends in the last
    column): the same oracle, with rows expanded to terminal columns."""
    tier, seed, h, w, k0, depth = args[:6]
    family = args[6] if len(args) > 6 else "wide_characters"
    acc = Acc(seed=seed, sample_stride=997)
    world = World(False, True)
    desc, term0 = [(d, t) for d, t in initial_terms(h, w) if d["kind"] == "printed_lines" and d["k"] == k0][0]
    base = {"size": [h, w], "keep_last_line": False, "hide_cursor": True, "initial": {"kind": "printed_lines", "k": k0}, "family": family}
    T0 = term0.r
    hist0 = history_lines(term0, T0)
    world.proxy.log = []
    st0 = world.enter(term0.copy())
    entered = "".join(world.proxy.log)
    world.proxy.log = None
    texts = [t for t in WIDE_TEXTS if sum(2 if ord(c) > 0x2E80 else (0 if c in "\u0301\u200d" else 1) for c in t) <= w - 1]

    def long_arrays(step):
        # lines of 40+ characters that share long prefixes (text AND formatting) from one render to the next, the prefixes
        # containing double-width and combining characters: anything that updates only the changed tail of a line has to
        # convert characters to columns
        P = ">>> t = '日本語のタ' + ', and some more text to fo"
        Q = "e\u0301te\u0301 " + "abcdefghij" * 3 + "klmnopq"
        A = "x" * 41
        pool = [P + "l", P + "x", P[:33] + "CHANGED", Q + "r", Q + "s", A + "1", A + "2", P, "short", Q[:20] + "こ" + Q[20:]]
        pool = [t for t in pool if sum(2 if ord(c) > 0x2E80 else (0 if c in "\u0301\u200d" else 1) for c in t) <= w - 1]
        out = [((), (0, 0))]
        for n in range(1, h + 1):
            for off in range(len(pool)):
                rows = []
                for i in range(n):
                    t = pool[(off + i * 2 + (step if i == 0 else 0)) % len(pool)]
                    # formatting depends on the row and the column only (not on the step): two runs per row
                    rows.append(tuple((c, (("fg", 31),) if (j < 12 and i % 2 == 0) else (("underline", True),) if j < 12 else ()) for j, c in enumerate(t)))
                arr = tuple(rows)
                out.append((arr, (n - 1, max(0, len(expand_cells(arr[n - 1])) - 1))))
        return out

    def tall_arrays(step):
        # one render that has to scroll in hundreds of lines more than the window is high
        out = []
        for n in (0, 2, h + 1, h + 499, h + 501, h + 520, 2 * h + 1000):
            arr = tuple(tuple((c, (("fg", 31),) if i % 7 == 0 else ()) for c in ("%d.%d" % (step, i))[: w - 1]) for i in range(n))
            out.append((arr, (max(0, n - 1), 0)))
        return out

    def repeating_arrays(step):
        # rows from a 4-row alphabet that does NOT change from render to render (a row cached from an earlier render can be equal to a
        # row of a later one), heights up to 2h+3 (one render scrolls more than a screenful)
        alpha = ((), (("a", ()),), (("b", (("fg", 31),)),), (("a", ()), ("b", ())))
        out = []
        for n in range(0, 2 * h + 4):
            for kk in (1, 2, 3):
                for off in range(4):
                    arr = tuple(alpha[(i * kk + off) % 4] for i in range(n))
                    out.append((arr, (max(0, n - 1), 0)))
                    if n == 0:
                        break
                if n == 0:
                    break
        return out

    def arrays(step):
        if family == "repeating_rows":
            return repeating_arrays(step)
        if family == "long_lines":
            return long_arrays(step)
        if family == "tall_arrays":
            return tall_arrays(step)
        out = []
        for n in range(0, h + 2):
            for off in range(0, len(texts), 2 if n > 1 else 1):
                rows = []
                for i in range(n):
                    t = texts[(off + i * 3 + step) % len(texts)]
                    att = (("fg", 31),) if (i + step) % 2 else (("underline", True),)
                    rows.append(tuple((c, att) for c in t))
                arr = tuple(rows)
                curs = [(0, 0)] + ([(n - 1, len(expand_cells(arr[n - 1])) and len(expand_cells(arr[n - 1])) - 1)] if n else [])
                for cur in curs:
                    out.append((arr, cur))
                if n == 0:
                    break
        return out

    def rec(st, T, hist, step, written, last):
        if step >= depth:
            return
        options = arrays(step) + ([last] if last is not None else [])
        for arr, cur in options:
            case = dict(base, history=hist, render=["".join(c for c, _ in r) for r in arr], cursor=list(cur))
            acc.case(True, key=("wide", h, w, k0, tuple(map(str, hist)), arr, cur), sample=case)
            acc.transitions += 1
            # pyte does not model format characters such as ZWJ the way terminals do: no second opinion once one was written
            # ... and pyte loses a combining mark that follows a double-width character (it joins it to the stub cell)
            def _pyte_ok(t):
                return "\u200d" not in t and "こ\u0301" not in t

            no_cf = _pyte_ok(written) and all(_pyte_ok("".join(c for c, _ in r)) for r in arr)
            res = check_render(acc, world, st, T, hist0, arr, cur, case, (desc["bytes"], written, no_cf and (tier == "thorough" or acc.n % 3 == 0)))
            if res is None:
                continue
            new, T2, written2 = res
            acc.state(hash(("wide", h, w, k0, new[1].canon())))
            rec(new, T2, hist + [[case["render"], list(cur)]], step + 1, written2, (arr, cur))

    rec(st0, T0, [], 0, entered, None)
    world.close()
    acc.validated = acc.n
    return acc.export()


def run(ctx):
    rep = Report()
    wide = [(ctx.tier, ctx.seed, h, w, k0, 3 if ctx.thorough else 2) for (h, w) in ((3, 7), (2, 9)) for k0 in range(0, h + 1)]
    for d in ctx.pmap(explore_wide, wide):
        rep.merge(d, "wide_characters")
    import pickle
    import subprocess
    import sys
    import tempfile

    for k0 in (0, 2, 3):
        for keep in (False, True):
            # an ordinary child interpreter (multiprocessing children have a closed sys.__stdin__)
            with tempfile.NamedTemporaryFile(suffix=".pickle") as tf:
                r = subprocess.run([sys.executable, "-X", "utf8", "-m", "mc.std_fds_main", str(k0), str(int(keep)), tf.name], stdin=subprocess.DEVNULL, stdout=subprocess.DEVNULL, stderr=subprocess.PIPE, text=True, timeout=300)
                if r.returncode != 0:
                    raise RuntimeError("mc.std_fds_main failed: " + r.stderr[-1500:])
                rep.merge(pickle.load(open(tf.name, "rb")), "terminal_on_descriptors_0_and_1")
    sess = [(ctx.tier, ctx.seed, h, w, keep, hide, k0, stride) for (h, w) in ((3, 3), (2, 5)) for keep in (False, True) for hide in (True, False) for k0, stride in ((0, 1), (2, 7), (h, 5))]
    for d in ctx.pmap(explore_long, sess):
        rep.merge(d, "one_window_hundreds_of_renders")
    longl = [(ctx.tier, ctx.seed, 3, w, k0, 3 if ctx.thorough else 2, "long_lines") for w in (48, 60) for k0 in (0, 2, 4)]
    for d in ctx.pmap(explore_wide, longl):
        rep.merge(d, "long_lines_sharing_prefixes")
    rept = [(ctx.tier, ctx.seed, h, 2, k0, 3, "repeating_rows") for h in (2, 3) for k0 in range(0, h + 1)]
    for d in ctx.pmap(explore_wide, rept):
        rep.merge(d, "rows_that_repeat_from_render_to_render")
    tall = [(ctx.tier, ctx.seed, h, 8, k0, 2, "tall_arrays") for h in (3, 5) for k0 in range(0, h + 2)]
    for d in ctx.pmap(explore_wide, tall):
        rep.merge(d, "arrays_hundreds_of_rows_taller_than_the_window")
    shards = []
    sizes = [(2, 2), (3, 2), (3, 3), (1, 2), (2, 5)] + ([(4, 3), (5, 1)] if ctx.thorough else [])
    for (h, w) in sizes:
        ninit = len(initial_terms(h, w))
        for keep in (False, True):
            for hide in (True, False):
                deep = (not keep) and hide
                if ctx.thorough:
                    depth, npat = (3, 4 if deep else 2)
                    if (h, w) == (3, 2) and deep:
                        depth, npat = 4, 2
                    if (h, w) == (4, 3):
                        depth, npat = 3, 2
                else:
                    depth, npat = (3, 2) if (deep and (h, w) == (3, 2)) else (2, 3)
                for i in range(ninit):
                    shards.append((ctx.tier, ctx.seed, h, w, keep, hide, depth, npat, i, i + 1))
    shards.sort(key=lambda s: -(s[6] * 10 + s[7]))
    for d in ctx.pmap(explore, shards):
        rep.merge(d)
    rep.rule = (
        "for sizes %s, keep_last_line x hide_cursor, every initial screen (0..h+2 printed lines; cursor parked on every row over junk): all "
        "render histories up to depth 2-3 (thorough 3-4) over the menu heights 0..h+2 x row patterns (all full-width / all one character / "
        "empty-one-full / full-empty) x cursor on the first and last array cell, row content distinct per step and row, and exit from every "
        "state. Families beyond the small sizes: rows with double-width / zero-width characters (3x7, 2x9); 3x48 and 3x60 terminals with 40+ "
        "character lines sharing prefixes (depth 2, thorough 3); single renders of 0/2/h+1/h+499/h+501/h+520/2h+1000 rows from every initial "
        "cursor row on 3x8 and 5x8 (depth 2). Stateless w.r.t. deduplication (content differs per step, so every history is a distinct state). non-trivial = the render "
        "scrolls or follows another render. transitions = real renders and exits." % (sizes,)
    )
    rep.assumptions = [
        "terminal = mc/term.py (xterm: LF at the bottom scrolls into scrollback, DECSC/DECRC, CUP clamping; double-width characters own two columns, zero-width characters join the previous cell)",
        "rows no wider than the terminal; rows with double-width / zero-width characters are at most w-1 columns wide (no row ends in the last column)",
        "when the cell cursor_pos designates has scrolled off the top the cursor position is not checked",
    ]
    return rep
