"""C01 - str(FmtStr) displays exactly its characters and formatting, then resets (DESIGN.md 4/C01).

Space  : (a) singles: all 9 x 9 x 3^6 = 59 049 attribute assignments (fg, bg in 8 colours + none, each style
             absent / True / False) x texts, built with fmtstr(text, **atts);
         (b) adjacent runs: every ordered pair (x, y), x in P_full (all 5 184 True-sets), y in a 24 element sharp
             palette, both orders, with and without an empty formatted run between; every triple over the 24-palette.
Oracle : feed str(f) to the independent SGR interpreter (mc.sgr) started in the default state:
         (1) printed characters == the text given at construction, in order
         (2) each character's (fg, bg, styles) == the attributes given at construction (from the generator, not from f.chunks)
         (3) final graphic state == default   (4) no non-SGR sequence, no unknown SGR code
         + alpha cross-check (cells read from f.chunks == displayed cells), + pyte second opinion for printable ASCII texts.
"""
import itertools

from mc import cells as C
from mc import sgr
from mc.runner import Acc, Report

LEVEL = "model_checking"

COL = (None,) + C.COLORS
TRI = (None, True, False)

TEXTS_QUICK = ("a", "a\nb\t")
TEXTS_THOROUGH = ("a", "a\nb\t", "", "Ｅ", "é", "[0m", "éx")

# 24-element sharp palette for neighbours (attribute dicts as given to fmtstr)
PAL24 = [
    {},
    {"fg": "red"}, {"fg": "gray"}, {"fg": "black"},
    {"bg": "blue"}, {"bg": "black"}, {"bg": "gray"},
    {"bold": True}, {"dark": True}, {"italic": True}, {"underline": True}, {"blink": True}, {"invert": True},
    {"fg": "green", "bg": "yellow"},
    {"fg": "red", "bold": True}, {"bg": "cyan", "underline": True},
    {"bold": True, "dark": True},
    {"bold": True, "dark": True, "italic": True, "underline": True, "blink": True, "invert": True},
    {"fg": "magenta", "bg": "red", "bold": True, "dark": True, "italic": True, "underline": True, "blink": True, "invert": True},
    {"bold": False}, {"fg": "blue", "invert": False},
    {"fg": 31}, {"bg": 47}, {"fg": 30, "bg": 40, "blink": True},
]
assert len(PAL24) == 24


def expected_atts(kw):
    d = {}
    for k, v in kw.items():
        if k == "fg":
            d[k] = C.FG[v] if isinstance(v, str) else v
        elif k == "bg":
            d[k] = C.BG[v] if isinstance(v, str) else v
        else:
            d[k] = v
    return C.norm_atts(d)


_pyte = None


def pyte_check(acc, s, expected, case):
    global _pyte
    import pyte

    if _pyte is None:
        screen = pyte.Screen(40, 2)
        _pyte = (screen, pyte.Stream(screen))
    screen, stream = _pyte
    screen.reset()
    stream.feed(s)
    row = screen.buffer[0]
    n = screen.cursor.x
    if n != len(expected) or screen.cursor.y != 0:
        acc.failure("C01:pyte_char_count", case, "pyte printed %d cells, expected %d" % (n, len(expected)))
        return
    for x, (ch, atts) in enumerate(expected):
        cell = row[x]
        a = []
        if cell.fg != "default":
            a.append(("fg", sgr._PYTE_FG[cell.fg]))
        if cell.bg != "default":
            a.append(("bg", sgr._PYTE_FG[cell.bg] + 10))
        for name, flag in (("bold", cell.bold), ("italic", cell.italics), ("underline", cell.underscore), ("blink", cell.blink), ("invert", cell.reverse)):
            if flag:
                a.append((name, True))
        want = tuple(p for p in atts if p[0] != "dark")
        if cell.data != ch or tuple(sorted(a)) != want:
            acc.failure("C01:pyte_disagrees", case, "cell %d: pyte shows %r %r, expected %r %r" % (x, cell.data, sorted(a), ch, want))
            return
    cur = screen.cursor.attrs
    if cur.fg != "default" or cur.bg != "default" or cur.bold or cur.italics or cur.underscore or cur.blink or cur.reverse:
        acc.failure("C01:pyte_final_state", case, "pyte's graphic state after the string: %r" % (cur,))
    acc.add("pyte_agreements")


def check_value(acc, runs, case, use_pyte):
    """runs: list of (text, kwargs). Build through the public API, check the displayed string."""
    from curtsies.formatstring import fmtstr

    f = None
    for text, kw in runs:
        part = fmtstr(text, **kw)
        f = part if f is None else f + part
    expected = []
    for text, kw in runs:
        a = expected_atts(kw)
        expected.extend((c, a) for c in text)
    try:
        s = str(f)
    except Exception as ex:  # noqa
        acc.failure("C01:str_raises:" + type(ex).__name__, case, repr(ex))
        return
    shown, final, non_sgr, unknown = sgr.interpret(s)
    acc.state(hash(s))
    if [c for c, _ in shown] != [c for c, _ in expected]:
        acc.failure("C01:characters", case, "displayed %r, constructed %r (str=%r)" % ([c for c, _ in shown], [c for c, _ in expected], s))
    elif shown != expected:
        acc.failure("C01:formatting", case, "displayed %r, constructed %r (str=%r)" % (shown, expected, s))
    if final != ():
        acc.failure("C01:state_not_reset", case, "graphic state left at %r by %r" % (final, s))
    if non_sgr or unknown:
        acc.failure("C01:non_sgr_content", case, "non-SGR %r unknown codes %r in %r" % (non_sgr, unknown, s))
    if C.cells(f) != expected:
        acc.failure("C01:alpha_desync", case, "chunks say %r, constructed %r" % (C.cells(f), expected))
    if use_pyte:
        pyte_check(acc, s, expected, case)


def kw_of(fg, bg, tri):
    kw = {}
    if fg is not None:
        kw["fg"] = fg
    if bg is not None:
        kw["bg"] = bg
    for name, v in zip(C.STYLE_NAMES, tri):
        if v is not None:
            kw[name] = v
    return kw


def shard_singles(args):
    tier, seed, fg, bg = args
    acc = Acc(seed=seed)
    texts = TEXTS_THOROUGH if tier == "thorough" else TEXTS_QUICK
    for tri in itertools.product(TRI, repeat=6):
        kw = kw_of(fg, bg, tri)
        for text in texts:
            case = {"kind": "single", "runs": [[text, kw]]}
            acc.case(bool(kw) and bool(text), key=("s", fg, bg, tri, text), sample=case)
            check_value(acc, [(text, kw)], case, use_pyte=(text in ("a", "[0m")))
    return acc.export()


def shard_pairs(args):
    tier, seed, fg, bg = args
    acc = Acc(seed=seed)
    pal = PAL24 if tier == "thorough" else PAL24[::2] + [PAL24[17], PAL24[18]]
    for bits in itertools.product((None, True), repeat=6):
        x = kw_of(fg, bg, bits)
        for yi, y in enumerate(pal):
            for order in (0, 1):
                for empty in (None, {"bold": True, "fg": "cyan", "bg": "magenta"}):
                    runs = [("ab", x), ("cd", y)] if order == 0 else [("ab", y), ("cd", x)]
                    if empty is not None:
                        runs = [runs[0], ("", empty), runs[1]]
                    case = {"kind": "pair", "runs": [[t, k] for t, k in runs]}
                    acc.case(bool(x) or bool(y), key=("p", fg, bg, bits, yi, order, empty is None), sample=case)
                    check_value(acc, runs, case, use_pyte=(tier == "thorough" or yi % 4 == 0))
    return acc.export()


def shard_triples(args):
    tier, seed, i = args
    acc = Acc(seed=seed)
    x = PAL24[i]
    for j, y in enumerate(PAL24):
        for k, z in enumerate(PAL24):
            runs = [("a", x), ("b", y), ("c", z)]
            case = {"kind": "triple", "runs": [[t, kk] for t, kk in runs]}
            acc.case(True, key=("t", i, j, k), sample=case)
            check_value(acc, runs, case, use_pyte=True)
    return acc.export()


def run(ctx):
    rep = Report()
    grid = [(ctx.tier, ctx.seed, fg, bg) for fg in COL for bg in COL]
    for d in ctx.pmap(shard_singles, grid):
        rep.merge(d, "singles")
    for d in ctx.pmap(shard_pairs, grid):
        rep.merge(d, "pairs")
    for d in ctx.pmap(shard_triples, [(ctx.tier, ctx.seed, i) for i in range(24)]):
        rep.merge(d, "triples")
    rep.validated = rep.n
    rep.rule = (
        "singles: all 59 049 assignments of (fg, bg in 8 colours+none) x (each of 6 styles absent/True/False) x texts %r; pairs: "
        "every True-set of P_full (5 184) next to each element of a sharp palette, both orders, with/without an empty formatted run "
        "between; triples over the 24-palette. Distinct by construction; non-trivial = some attribute given and text non-empty. "
        "states = distinct terminal strings." % (list(TEXTS_THOROUGH if ctx.thorough else TEXTS_QUICK),)
    )
    rep.bounds = {"texts": len(TEXTS_THOROUGH if ctx.thorough else TEXTS_QUICK), "runs": 3}
    rep.assumptions = [
        "terminal = ECMA-48 SGR semantics as implemented by mc/sgr.py (bold and faint independent, as in xterm); pyte agrees on every cell it models",
        "texts contain no ESC/CSI introducer (property's precondition)",
    ]
    return rep


def replay(ctx, case):
    acc = Acc()
    check_value(acc, [(t, k) for t, k in case["runs"]], case, use_pyte=False)
    return [(s, e["cases"][0]["message"]) for s, e in acc.fail.items()]
