"""C01 - str(FmtStr) displays exactly its characters and formatting, then resets (DESIGN.md 4/C01).

Space  : (a) singles: all 9 x 9 x 3^6 = 59 049 attribute assignments (fg, bg in 8 colours + none, each style
             absent / True / False) x texts, built with fmtstr(text, **atts);
         (b) adjacent runs: every ordered pair (x, y), x in P_full (all 5 184 True-sets), y in a 24 element sharp
             palette, both orders, with and without an empty formatted run between; every triple over the 24-palette.
Oracle : feed str(f) to the independent SGR interpreter (mc.sgr) started in the default state:
         (1) printed characters == the text given at construction, in order
         (2) each character's (fg, bg, styles) == the attributes given at construction (from the generator, not from f.chunks)
         (3) final graphic state == default   (4) no non-SGR sequence, no unknown SGR code
         + alpha cross-check (cells read from f.chunks == displayed cells), + pyte second opinion for printable ASCII texts.
"""
import itertools

from mc import cells as C
from mc import sgr
from mc import repeat
from mc.runner import Acc, Report

LEVEL = "model_checking"

COL = (None,) + C.COLORS
TRI = (None, True, False)

TEXTS_QUICK = ("a", "a\nb\t")
TEXTS_THOROUGH = ("a", "a\nb\t", "", "Ｅ", "é", "[0m", "éx")

# 24-element sharp palette for neighbours (attribute dicts as given to fmtstr)
PAL24 = [
    {},
    {"fg": "red"}, {"fg": "gray"}, {"fg": "black"},
    {"bg": "blue"}, {"bg": "black"}, {"bg": "gray"},
    {"bold": True}, {"dark": True}, {"italic": True}, {"underline": True}, {"blink": True}, {"invert": True},
    {"fg": "green", "bg": "yellow"},
    {"fg": "red", "bold": True}, {"bg": "cyan", "underline": True},
    {"bold": True, "dark": True},
    {"bold": True, "dark": True, "italic": True, "underline": True, "blink": True, "invert": True},
    {"fg": "magenta", "bg": "red", "bold": True, "dark": True, "italic": True, "underline": True, "blink": True, "invert": True},
    {"bold": False}, {"fg": "blue", "invert": False},
    {"fg": 31}, {"bg": 47}, {"fg": 30, "bg": 40, "blink": True},
]
assert len(PAL24) == 24


def expected_atts(kw):
    d = {}
    for k, v in kw.items():
        if k == "fg":
            d[k] = C.FG[v] if isinstance(v, str) else v
        elif k == "bg":
            d[k] = C.BG[v] if isinstance(v, str) else v
        else:
            d[k] = v
    return C.norm_atts(d)


_pyte = None


def pyte_check(acc, s, expected, case):
    global _pyte
    import pyte

    if _pyte is None:
        screen = pyte.Screen(40, 2)
        _pyte = (screen, pyte.Stream(screen))
    screen, stream = _pyte
    screen.reset()
    stream.feed(s)
    row = screen.buffer[0]
    n = screen.cursor.x
    if n != len(expected) or screen.cursor.y != 0:
        acc.failure("C01:pyte_char_count", case, "pyte printed %d cells, expected %d" % (n, len(expected)))
        return
    for x, (ch, atts) in enumerate(expected):
        cell = row[x]
        a = []
        if cell.fg != "default":
            a.append(("fg", sgr._PYTE_FG[cell.fg]))
        if cell.bg != "default":
            a.append(("bg", sgr._PYTE_FG[cell.bg] + 10))
        for name, flag in (("bold", cell.bold), ("italic", cell.italics), ("underline", cell.underscore), ("blink", cell.blink), ("invert", cell.reverse)):
            if flag:
                a.append((name, True))
        want = tuple(p for p in atts if p[0] != "dark")
        if cell.data != ch or tuple(sorted(a)) != want:
            acc.failure("C01:pyte_disagrees", case, "cell %d: pyte shows %r %r, expected %r %r" % (x, cell.data, sorted(a), ch, want))
            return
    cur = screen.cursor.attrs
    if cur.fg != "default" or cur.bg != "default" or cur.bold or cur.italics or cur.underscore or cur.blink or cur.reverse:
        acc.failure("C01:pyte_final_state", case, "pyte's graphic state after the string: %r" % (cur,))
    acc.add("pyte_agreements")


def check_value(acc, runs, case, use_pyte):
    """runs: list of (text, kwargs). Build through the public API, check the displayed string."""
    from curtsies.formatstring import fmtstr

    f = None
    for text, kw in runs:
        part = fmtstr(text, **kw)
        f = part if f is None else f + part
    expected = []
    for text, kw in runs:
        a = expected_atts(kw)
        expected.extend((c, a) for c in text)
    try:
        s = str(f)
    except Exception as ex:  # noqa
        acc.failure("C01:str_raises:" + type(ex).__name__, case, repr(ex))
        return
    shown, final, non_sgr, unknown = sgr.interpret(s)
    acc.state(hash(s))
    if [c for c, _ in shown] != [c for c, _ in expected]:
        acc.failure("C01:characters", case, "displayed %r, constructed %r (str=%r)" % ([c for c, _ in shown], [c for c, _ in expected], s))
    elif shown != expected:
        acc.failure("C01:formatting", case, "displayed %r, constructed %r (str=%r)" % (shown, expected, s))
    if final != ():
        acc.failure("C01:state_not_reset", case, "graphic state left at %r by %r" % (final, s))
    if non_sgr or unknown:
        acc.failure("C01:non_sgr_content", case, "non-SGR %r unknown codes %r in %r" % (non_sgr, unknown, s))
    if C.cells(f) != expected:
        acc.failure("C01:alpha_desync", case, "chunks say %r, constructed %r" % (C.cells(f), expected))
    if use_pyte:
        pyte_check(acc, s, expected, case)


def kw_of(fg, bg, tri):
    kw = {}
    if fg is not None:
        kw["fg"] = fg
    if bg is not None:
        kw["bg"] = bg
    for name, v in zip(C.STYLE_NAMES, tri):
        if v is not None:
            kw[name] = v
    return kw


def shard_singles(args):
    tier, seed, fg, bg = args
    acc = Acc(seed=seed)
    texts = TEXTS_THOROUGH if tier == "thorough" else TEXTS_QUICK
    for tri in itertools.product(TRI, repeat=6):
        kw = kw_of(fg, bg, tri)
        for text in texts:
            case = {"kind": "single", "runs": [[text, kw]]}
            acc.case(bool(kw) and bool(text), key=("s", fg, bg, tri, text), sample=case)
            check_value(acc, [(text, kw)], case, use_pyte=(text in ("a", "[0m")))
    return acc.export()


def shard_pairs(args):
    tier, seed, fg, bg = args
    acc = Acc(seed=seed)
    pal = PAL24 if tier == "thorough" else PAL24[::2] + [PAL24[17], PAL24[18]]
    for bits in itertools.product((None, True), repeat=6):
        x = kw_of(fg, bg, bits)
        for yi, y in enumerate(pal):
            for order in (0, 1):
                for empty in (None, {"bold": True, "fg": "cyan", "bg": "magenta"}):
                    runs = [("ab", x), ("cd", y)] if order == 0 else [("ab", y), ("cd", x)]
                    if empty is not None:
                        runs = [runs[0], ("", empty), runs[1]]
                    case = {"kind": "pair", "runs": [[t, k] for t, k in runs]}
                    acc.case(bool(x) or bool(y), key=("p", fg, bg, bits, yi, order, empty is None), sample=case)
                    check_value(acc, runs, case, use_pyte=(tier == "thorough" or yi % 4 == 0))
    return acc.export()


def shard_triples(args):
    tier, seed, i = args
    acc = Acc(seed=seed)
    x = PAL24[i]
    for j, y in enumerate(PAL24):
        for k, z in enumerate(PAL24):
            runs = [("a", x), ("b", y), ("c", z)]
            case = {"kind": "triple", "runs": [[t, kk] for t, kk in runs]}
            acc.case(True, key=("t", i, j, k), sample=case)
            check_value(acc, runs, case, use_pyte=True)
    return acc.export()


def derived_ops():
    """(label, function(f) -> result, model(fc) -> expected cells or None when only display-vs-runs is checked)."""
    from curtsies.formatstring import FmtStr, fmtstr

    def restyle(fc, **kw):
        out = []
        for c, a in fc:
            d = dict(a)
            d.update(kw)
            out.append((c, C.norm_atts(d)))
        return out

    return [
        ("f*2", lambda f: f * 2, lambda fc: fc * 2),
        ("f*0", lambda f: f * 0, lambda fc: []),
        ("f*3", lambda f: f * 3, lambda fc: fc * 3),
        ("f+f", lambda f: f + f, lambda fc: fc + fc),
        ("'q'+f", lambda f: "q" + f, lambda fc: [("q", ())] + fc),
        ("f+'q'", lambda f: f + "q", lambda fc: fc + [("q", ())]),
        ("f[1:]", lambda f: f[1:], lambda fc: fc[1:]),
        ("f[:-1]", lambda f: f[:-1], lambda fc: fc[:-1]),
        ("f[:]", lambda f: f[:], lambda fc: fc[:]),
        ("f.copy()", lambda f: f.copy(), lambda fc: fc),
        ("fmtstr(f)", lambda f: fmtstr(f), lambda fc: fc),
        ("fmtstr(f,'bold')", lambda f: fmtstr(f, "bold"), lambda fc: restyle(fc, bold=True)),
        ("fmtstr(f,bg='blue')", lambda f: fmtstr(f, bg="blue"), lambda fc: restyle(fc, bg=44)),
        ("copy_with_new_atts(fg=32)", lambda f: f.copy_with_new_atts(fg=32), lambda fc: restyle(fc, fg=32)),
        ("copy_with_new_atts(bold=False)", lambda f: f.copy_with_new_atts(bold=False), lambda fc: restyle(fc, bold=False)),
        ("new_with_atts_removed('fg')", lambda f: f.new_with_atts_removed("fg"), lambda fc: [(c, tuple(p for p in a if p[0] != "fg")) for c, a in fc]),
        ("new_with_atts_removed('bold')", lambda f: f.new_with_atts_removed("bold"), lambda fc: [(c, tuple(p for p in a if p[0] != "bold")) for c, a in fc]),
        ("splice('Z',1)", lambda f: f.splice("Z", 1), lambda fc: fc[:1] + [("Z", ())] + fc[1:]),
        ("append('Z')", lambda f: f.append("Z"), lambda fc: fc + [("Z", ())]),
        ("f.join([f,f])", lambda f: f.join([f, f]), lambda fc: fc * 3),
        ("fmtstr('-').join([f,f])", lambda f: fmtstr("-").join([f, f]), lambda fc: fc + [("-", ())] + fc),
        ("f.join(generator)", lambda f: f.join(x for x in [f, "q", f]), lambda fc: fc + fc + [("q", ())] + fc + fc),
        ("f.join(map)", lambda f: f.join(map(str, ["p", "q"])), lambda fc: [("p", ())] + fc + [("q", ())]),
        ("f.join(iter)", lambda f: f.join(iter([f, f])), lambda fc: fc * 3),
        ("ljust", lambda f: f.ljust(len(f) + 2), None),
        ("rjust*", lambda f: f.rjust(len(f) + 2, "*"), None),
        ("upper", lambda f: f.upper(), None),
        ("from_str(str(f))", lambda f: FmtStr.from_str(str(f)), lambda fc: fc),
        ("width_aware_slice(0:2)", lambda f: f.width_aware_slice(slice(0, 2)), lambda fc: fc[:2]),
        # pieces cut *inside* a run by the column-aware splitter (a piece must not inherit the rendered form of its run)
        ("width_aware_slice(1:2)", lambda f: f.width_aware_slice(slice(1, 2)), lambda fc: fc[1:2]),
        ("width_aware_slice(0:1)", lambda f: f.width_aware_slice(slice(0, 1)), lambda fc: fc[:1]),
        ("width_aware_slice(1:3)", lambda f: f.width_aware_slice(slice(1, 3)), lambda fc: fc[1:3]),
        ("first line of width_aware_splitlines(2)", lambda f: list(f.width_aware_splitlines(2))[0] if len(f) else f, lambda fc: fc[:2]),
        ("last line of width_aware_splitlines(2)", lambda f: list(f.width_aware_splitlines(2))[-1] if len(f) else f, lambda fc: fc[len(fc) - ((len(fc) - 1) % 2 + 1):] if fc else []),
        ("last line of width_aware_splitlines(3)", lambda f: list(f.width_aware_splitlines(3))[-1] if len(f) else f, lambda fc: fc[len(fc) - ((len(fc) - 1) % 3 + 1):] if fc else []),
        ("first line of width_aware_splitlines(5)", lambda f: list(f.width_aware_splitlines(5))[0] if len(f) else f, lambda fc: fc[:5]),
        ("f[1]", lambda f: f[1] if len(f) > 1 else f[0:0], lambda fc: fc[1:2]),
        ("last piece of split('b')", lambda f: f.split("b")[-1], None),
        ("last piece of splitlines()", lambda f: (f.splitlines() or [f])[-1], None),
    ]


WARM = ("cold", "str", "all")


def shard_derived(args):
    """Values produced by the public operations from operands that were (or were not) rendered before:
    the displayed string of the result must show exactly the result's characters and formatting."""
    tier, seed, idx = args
    acc = Acc(seed=seed)
    ops = derived_ops()
    k, L = (3, 2)
    for i, spec in enumerate(C.layouts(k, L)):
        if i % 64 != idx:
            continue
        for oi, (label, fn, model) in enumerate(ops):
            for warm in WARM:
                f = C.build(spec)
                if warm in ("str", "all"):
                    str(f)
                if warm == "all":
                    len(f), f.s, f.width
                fc = C.spec_cells(spec)
                case = {"kind": "derived", "f": C.show_spec(spec), "op": label, "operand_observed_first": warm}
                acc.case(bool(fc), key=("d", spec, oi, warm), sample=case)
                try:
                    r = fn(f)
                    s = str(r)
                except Exception as ex:  # noqa
                    if len(spec) == 0 and label in ("ljust", "rjust*", "upper"):
                        continue  # shared_atts of the zero-run value: outside C01
                    acc.failure("C01:derived_raises:" + type(ex).__name__, case, repr(ex))
                    continue
                shown, final, non_sgr, unknown = sgr.interpret(s)
                rc = C.cells(r)
                acc.state(hash(s))
                if shown != rc:
                    acc.failure("C01:derived_display_differs_from_runs", case, "str shows %r, runs say %r (str=%r)" % (shown, rc, s))
                if model is not None and rc != model(fc):
                    acc.failure("harness:derived_model", case, "runs %r, model %r" % (rc, model(fc)))
                if final != () or non_sgr or unknown:
                    acc.failure("C01:state_not_reset", case, "final %r non-sgr %r in %r" % (final, non_sgr, s))
                # the operand itself must still display as constructed
                shown_f = sgr.interpret(str(f))[0]
                if shown_f != fc:
                    acc.failure("C01:operand_display_changed", case, "operand now shows %r, constructed %r" % (shown_f, fc))
    return acc.export()


def shard_exotic(args):
    tier, seed, idx = args
    acc = Acc(seed=seed)
    specs = C.exotic_specs() + C.huge_specs() + C.scale_specs(tier == "thorough") + [C.adjacent_colour_pairs(), C.adjacent_colour_pairs((("bold", True),)), C.adjacent_colour_pairs((("invert", True), ("underline", True)))]
    for si in range(idx, len(specs), 32):
        spec = specs[si]
        f = C.build(spec)
        want = C.spec_cells(spec)
        case = {"kind": "exotic", "f": C.show_spec(spec) if len(spec) <= 60 else {"runs": len(spec), "first_runs": C.show_spec(spec[:6])}}
        acc.case(True, key=("x", si), sample=case)
        for rnd in range(2):  # rendered twice: the memoised string must equal the first rendering
            shown, final, non_sgr, unknown = sgr.interpret(str(f))
            if shown != want:
                acc.failure("C01:formatting" if [c for c, _ in shown] == [c for c, _ in want] else "C01:characters", case, "displayed %r" % (shown[:30],))
            if final != () or non_sgr or unknown:
                acc.failure("C01:state_not_reset", case, "final %r non-sgr %r" % (final, non_sgr))
        # every prefix, suffix and middle slice at a run boundary displays exactly its own cells
        pts = [p_ for p_ in (C.boundary_points(spec) if len(spec) < 40 and len(want) < 200 else C.few_points(spec, 16)) if 0 <= p_ <= len(want)]
        for a in pts[::2]:
            for b in pts[1::2]:
                if a <= b:
                    shown = sgr.interpret(str(f[a:b]))[0]
                    acc.case(True, key=("xs", si, a, b))
                    if shown != want[a:b]:
                        acc.failure("C01:derived_display_differs_from_runs", dict(case, op="f[%d:%d]" % (a, b)), "displayed %r expected %r" % (shown[:20], want[a:b][:20]))
    return acc.export()


STYLES6 = ("bold", "dark", "italic", "underline", "blink", "invert")


def shard_orders_and_prefix_texts(args):
    """(a) the same attribute names given in different keyword ORDERS with different values, all rendered in one process, in both
    sequences; (b) run texts that occur inside SGR sequences ("32", "1m", "[3", ";4" ...): the value rendered first, then every proper
    slice of it rendered and displayed."""
    tier, seed, idx = args
    acc = Acc(seed=seed, sample_stride=997)
    k = 0
    for a in STYLES6:
        for b in STYLES6:
            if a == b:
                continue
            k += 1
            if k % 8 != idx:
                continue
            for col in (None, ("fg", "red"), ("bg", "blue")):
                variants = []
                for va, vb in ((True, False), (False, True), (True, True)):
                    for order in ((a, b), (b, a)):
                        kw = {}
                        vals = {a: va, b: vb}
                        if col and order[0] == a:
                            kw[col[0]] = col[1]
                        for n_ in order:
                            kw[n_] = vals[n_]
                        if col and order[0] != a:
                            kw[col[0]] = col[1]
                        variants.append(kw)
                for seq in (variants, variants[::-1], variants[1::2] + variants[::2]):
                    for kw in seq:
                        case = {"kind": "keyword_order", "runs": [["st", {x: y for x, y in kw.items()}]], "keyword_order": list(kw)}
                        acc.case(True, key=("order", a, b, str(col), tuple(kw.items())), sample=case)
                        check_value(acc, [("st", kw)], case, False)
    from curtsies.formatstring import fmtstr

    texts = ["32", "1m", "[3", ";4", "31m", "0m", "[1", "4;3", "m", "[", "39m", "44", "[0m", "1", "3", "\\x1b", "x1b[", "[32"]
    for pi, kw in enumerate(PAL24):
        if pi % 8 != idx:
            continue
        a_ = expected_atts(kw)
        for t in texts:
            f = fmtstr(t, **kw)
            case = {"kind": "text_inside_sgr", "runs": [[t, kw]]}
            acc.case(True, key=("inside", pi, t), sample=case)
            whole = sgr.interpret(str(f))[0]
            if whole != [(c, a_) for c in t]:
                acc.failure("C01:formatting", case, "displayed %r" % (whole,))
                continue
            for i in range(len(t) + 1):
                for j in range(i, len(t) + 1):
                    for piece, label in ((lambda: f[i:j], "f[%d:%d]" % (i, j)), (lambda: f.width_aware_slice(slice(i, j)), "width_aware_slice(%d,%d)" % (i, j))):
                        try:
                            shown = sgr.interpret(str(piece()))[0]
                        except Exception as ex:  # noqa
                            acc.failure("C01:str_raises:" + type(ex).__name__, dict(case, op=label), repr(ex))
                            continue
                        acc.transitions += 1
                        if shown != [(c, a_) for c in t[i:j]]:
                            acc.failure("C01:derived_display_differs_from_runs", dict(case, op=label + " after the whole value was rendered"), "displayed %r expected %r" % (shown, [(c, a_) for c in t[i:j]]))
    return acc.export()


def twins(acc):
    from mc import fresh

    n, findings = fresh.twin_findings()
    for _ in range(n):
        acc.case(True)
    acc.transitions += n
    for kind, case, msg in findings:
        acc.failure({"order_dependent": "C01:terminal_string_depends_on_what_was_rendered_before", "roundtrip": "C01:formatting", "terminal_meaning": "C01:formatting"}[kind], case, msg)


def run(ctx):
    rep = Report()
    acc = Acc(seed=ctx.seed)
    twins(acc)
    rep.merge(acc, "equal_but_distinguishable_attribute_values_in_fresh_processes")
    for d in ctx.pmap(shard_orders_and_prefix_texts, [(ctx.tier, ctx.seed, i) for i in range(8)]):
        rep.merge(d, "keyword_orders_and_texts_that_occur_inside_sgr_sequences")
    repeat.run_into(ctx, rep, "C01")
    for d in ctx.pmap(shard_exotic, [(ctx.tier, ctx.seed, i) for i in range(32)]):
        rep.merge(d, "long_and_exotic_values")
    grid = [(ctx.tier, ctx.seed, fg, bg) for fg in COL for bg in COL]
    for d in ctx.pmap(shard_singles, grid):
        rep.merge(d, "singles")
    for d in ctx.pmap(shard_pairs, grid):
        rep.merge(d, "pairs")
    for d in ctx.pmap(shard_triples, [(ctx.tier, ctx.seed, i) for i in range(24)]):
        rep.merge(d, "triples")
    for d in ctx.pmap(shard_derived, [(ctx.tier, ctx.seed, i) for i in range(64)]):
        rep.merge(d, "derived_values")
    rep.validated = rep.n
    rep.rule = (
        "derived: every value of U_layout(3,2,P3) pushed through 40 public operations (cuts inside a run by slice, column slice and wrapping among them) with the operand never observed / rendered / fully "
        "observed first; singles: all 59 049 assignments of (fg, bg in 8 colours+none) x (each of 6 styles absent/True/False) x texts %r; pairs: "
        "every True-set of P_full (5 184) next to each element of a sharp palette, both orders, with/without an empty formatted run "
        "between; triples over the 24-palette. Distinct by construction; non-trivial = some attribute given and text non-empty. "
        "states = distinct terminal strings." % (list(TEXTS_THOROUGH if ctx.thorough else TEXTS_QUICK),)
    )
    rep.bounds = {"texts": len(TEXTS_THOROUGH if ctx.thorough else TEXTS_QUICK), "runs": 3}
    rep.assumptions = [
        "terminal = ECMA-48 SGR semantics as implemented by mc/sgr.py (bold and faint independent, as in xterm); pyte agrees on every cell it models",
        "texts contain no ESC/CSI introducer (property's precondition)",
    ]
    return rep


def replay(ctx, case):
    acc = Acc()
    if case.get("kind") in ("derived", "exotic", "text_inside_sgr") or "style_colour_bool_int" in case:
        return []
    check_value(acc, [(t, k) for t, k in case["runs"]], case, use_pyte=False)
    return [(s, e["cases"][0]["message"]) for s, e in acc.fail.items()]
