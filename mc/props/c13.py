"""C13 - FmtStr values are immutable and their memoised views never go stale (DESIGN.md 4/C13).

Stateless search over straight-line programs (FmtStr cannot be deep-copied, so every program is re-executed from freshly built seeds).
  pool      : 3 seeds (multi-run with an empty run; double-width + combining across a run boundary; plain text with whitespace/newline),
              every result of an operation is pushed to the pool and can be an operand of the next operation
  actions   : ~50 operation instances of the public API (+, *, slicing, splice, append, join with a pool value as separator and as item,
              split, splitlines, ljust/rjust, copy_with_new_atts, new_with_atts_removed, copy_with_new_str, width_aware_slice,
              width_aware_splitlines consumed fully and half-way, delegated str methods, fmtstr re-wrapping, from_str, linesplit, copy,
              FSArray assignment over pool values), each with every choice of pool operands
  schedule  : before every operation one of 6 observation masks {none, str, len, s, width, all} is applied to the whole pool, so every memo is
              filled before / after aliasing could happen; the reference execution observes everything after every step
  oracle    : at the end of every execution every pool value's views (s, len, width, str, repr, cells) equal the snapshot taken at its
              creation in the reference execution AND equal the views of a never-observed FmtStr rebuilt from fresh Chunk objects.
              Mutation attempts (item assignment; every dict mutator on every run's attributes) must raise and change nothing.
"""
import itertools

from mc import cells as C
from mc import repeat
from mc.runner import Acc, Report

LEVEL = "model_checking"
MASKS = ("none", "str", "len", "s", "width", "all")


def seeds():
    from curtsies.formatstring import fmtstr

    s0 = fmtstr("ab", "red") + fmtstr("") + fmtstr("cd", "blue", "bold")
    s1 = fmtstr("aＥ") + fmtstr("e", bg="blue") + fmtstr("̀x", bg="blue", underline=True)
    s2 = fmtstr("x y\nz w", "green")
    return [s0, s1, s2]


def views(v):
    out = []
    for fn in (lambda: v.s, lambda: len(v), lambda: v.width, lambda: str(v), lambda: repr(v), lambda: tuple(C.cells(v)), lambda: len(v.chunks)):
        try:
            out.append(fn())
        except Exception as ex:  # noqa
            out.append(("exc", type(ex).__name__))
    return tuple(out)


def observe(pool, mask):
    if mask == "none":
        return
    for v in pool:
        try:
            if mask in ("str", "all"):
                str(v)
            if mask in ("len", "all"):
                len(v)
            if mask in ("s", "all"):
                v.s
            if mask in ("width", "all"):
                v.width
        except Exception:  # noqa
            pass
        if mask == "all":
            # every other read-only view and query of the public API
            for q in (lambda: repr(v), lambda: hash(v), lambda: dict(v.shared_atts), lambda: list(v.divides), lambda: v.width_at_offset(len(v)), lambda: v.width_at_offset(len(v) + 5),
                      lambda: v.width_at_offset(0), lambda: v == v, lambda: v.s.upper(), lambda: list(v.chunks), lambda: bool(v)):
                try:
                    q()
                except Exception:  # noqa
                    pass


def rebuilt_views(v):
    from curtsies.formatstring import Chunk, FmtStr

    return views(FmtStr(*[Chunk(str(c.s), dict(c.atts)) for c in v.chunks]))


_KEEP = []  # half-consumed generators are kept alive here for the duration of one execution


def build_ops():
    from curtsies.formatstring import FmtStr, fmtstr, linesplit
    from curtsies.formatstringarray import fsarray

    def half(v):
        it = v.width_aware_splitlines(2)
        _KEEP.append(it)
        return [next(it)]

    def fsa(v, w):
        a = fsarray([v, w], width=max(len(v), len(w)) + 1)
        a[0:1, 0:1] = ["Q"]
        a[1:2, 1:2] = [fmtstr("R", "red")]
        return list(a.rows)

    U = [
        ("v+'q'", lambda v: [v + "q"]),
        ("'q'+v", lambda v: ["q" + v]),
        ("v*2", lambda v: [v * 2]),
        ("v[1:]", lambda v: [v[1:]]),
        ("v[:-1]", lambda v: [v[:-1]]),
        ("v[0]", lambda v: [v[0]]),
        ("v[1:3]", lambda v: [v[1:3]]),
        ("v[:]", lambda v: [v[:]]),
        ("splice(Z,1)", lambda v: [v.splice("Z", 1)]),
        ("splice(Z,0,2)", lambda v: [v.splice("Z", 0, 2)]),
        ("splice('',1,2)", lambda v: [v.splice("", 1, 2)]),
        ("append(Z)", lambda v: [v.append("Z")]),
        ("splice(fmt,1,2)", lambda v: [v.splice(fmtstr("Y", "yellow"), 1, 2)]),
        ("split(' ')", lambda v: v.split(" ")),
        ("split('b')", lambda v: v.split("b")),
        ("splitlines()", lambda v: v.splitlines()),
        ("splitlines(True)", lambda v: v.splitlines(True)),
        ("ljust", lambda v: [v.ljust(len(v) + 2)]),
        ("rjust", lambda v: [v.rjust(len(v) + 2)]),
        ("ljust*", lambda v: [v.ljust(len(v) + 2, "*")]),
        ("copy_with_new_atts(bold)", lambda v: [v.copy_with_new_atts(bold=True)]),
        ("copy_with_new_atts(fg)", lambda v: [v.copy_with_new_atts(fg=32)]),
        ("copy_with_new_atts(bold=False)", lambda v: [v.copy_with_new_atts(bold=False)]),
        ("copy_with_new_atts(underline, invert) and fmtstr(v, 'red', 'bold')", lambda v: [v.copy_with_new_atts(underline=True, invert=True), fmtstr(v, "red", "bold")]),  # several attributes, keyword order not sorted
        ("fmtstr(v,bold=False,underline=False)", lambda v: [fmtstr(v, bold=False, underline=False)]),
        ("new_with_atts_removed(fg)", lambda v: [v.new_with_atts_removed("fg")]),
        ("new_with_atts_removed(bold,bg)", lambda v: [v.new_with_atts_removed("bold", "bg")]),
        ("copy_with_new_str", lambda v: [v.copy_with_new_str("new")]),
        ("width_aware_slice(1,3)", lambda v: [v.width_aware_slice(slice(1, 3))]),
        ("width_aware_splitlines(2)", lambda v: list(v.width_aware_splitlines(2))),
        ("width_aware_splitlines(2) half", half),
        ("upper", lambda v: [v.upper()]),
        ("strip", lambda v: [v.strip("ax")]),
        ("fmtstr(v)", lambda v: [fmtstr(v)]),
        ("fmtstr(v,bold)", lambda v: [fmtstr(v, "bold")]),
        ("fmtstr(v,bg=blue)", lambda v: [fmtstr(v, bg="blue")]),
        ("copy", lambda v: [v.copy()]),
        ("setitem", lambda v: [v.setitem(0, "Q")]),
        ("from_str(str(v))", lambda v: [FmtStr.from_str(str(v))]),
        ("linesplit(v,3)", lambda v: linesplit(v, 3)),
        ("v.join([v,'k',v])", lambda v: [v.join([v, "k", v])]),
        ("fmtstr('').join([v,'k',v])", lambda v: [fmtstr("").join([v, "k", v])]),
        ("splice('',3,1) reversed range", lambda v: [v.splice("", 3, 1)]),
        ("splice('Z',3,1) reversed range", lambda v: [v.splice("Z", 3, 1)]),
        ("v.join([str(v),'k'])", lambda v: [v.join([str(v), "k"])]),
        ("fmtstr('-').join(generator of str(v), v)", lambda v: [fmtstr("-").join(x for x in [str(v), v])]),
        ("v[1:1].join([v,v])", lambda v: [v[1:1].join([v, v])]),
        ("(v*0).join([v,'k'])", lambda v: [(v * 0).join([v, "k"])]),
        ("v*-2", lambda v: [v * -2, v * -1]),
        ("append(str with SGR)", lambda v: [v.append("\x1b[34mz\x1b[39m"), v.append("p\x1b[1mq")]),
        ("splice(str with SGR,1)", lambda v: [v.splice("\x1b[34mz\x1b[39m", 1), v.splice("\x1b[31mr\x1b[0m", 0, 2)]),
        ("v + str with SGR", lambda v: [v + "\x1b[34mz\x1b[39m", "\x1b[4mu\x1b[24m" + v]),
        ("copy_with_new_str(str with SGR)", lambda v: [v.copy_with_new_str("\x1b[34mz\x1b[39m")]),
        ("setitem(str with SGR)", lambda v: [v.setitem(0, "\x1b[34mz\x1b[39m")]),
        ("ljust/rjust", lambda v: [v.ljust(len(v) + 2, "."), v.rjust(len(v) + 3)]),
        ("ljust/rjust with a wide and a zero-width fill character", lambda v: [v.ljust(len(v) + 2, "\uff25"), v.rjust(len(v) + 2, "\u0300"), v.ljust(len(v) + 1, "\u30fb")]),
        ("v.join([str pieces with non-SGR escape sequences])", lambda v: [v.join([v, "\x1b[?25lp", "\x1bMq"]), v.join(["\x1b]0;t\x07r", "\x9b1ms", "\x1b[31"])]),
    ]
    B = [
        ("v+w", lambda v, w: [v + w]),
        ("v.join([w,'k'])", lambda v, w: [v.join([w, "k"])]),
        ("w.join([v,v])", lambda v, w: [w.join([v, v])]),
        ("v.splice(w,1)", lambda v, w: [v.splice(w, 1)]),
        ("v.splice(w,0,1)", lambda v, w: [v.splice(w, 0, 1)]),
        ("v.append(w)", lambda v, w: [v.append(w)]),
        ("fsarray assign", fsa),
        ("fmtstr('').join([v,w])", lambda v, w: [fmtstr("").join([v, w])]),
        ("w[0:0].join([v,w,v])", lambda v, w: [w[0:0].join([v, w, v])]),
    ]
    return U, B


MAXRES = 3


def execute(U, B, program, masks, reference):
    """program: list of (kind, op index, operand indices). Returns (final views list, creation snapshots or None, op outcomes)."""
    del _KEEP[:]
    pool = seeds()
    snaps = [views(v) for v in pool] if reference else None
    outcomes = []
    for t, (kind, oi, idxs) in enumerate(program):
        observe(pool, "all" if reference else masks[t])
        name, fn = (U if kind == "u" else B)[oi]
        try:
            res = fn(*[pool[i] for i in idxs])
            res = [r for r in res if hasattr(r, "chunks")][:MAXRES]
            outcomes.append(len(res))
        except Exception as ex:  # noqa
            res = []
            outcomes.append(type(ex).__name__)
        pool.extend(res)
        if reference:
            snaps.extend(views(v) for v in res)
    final = [views(v) for v in pool]
    return pool, final, snaps, outcomes


def programs_from(U, B, first, depth, pool_sizes_hint=None):
    """All programs of length `depth` whose first step is `first`. Pool size after each step is discovered by executing."""
    raise NotImplementedError


def step_choices(U, B, npool, reduced=False):
    out = []
    for oi in range(len(U)):
        if reduced and oi % 3 != 0:
            continue
        for i in range(npool):
            out.append(("u", oi, (i,)))
    for oi in range(len(B)):
        for i in range(npool):
            for j in range(npool):
                out.append(("b", oi, (i, j)))
    return out


def describe(U, B, program):
    return [[(U if k == "u" else B)[oi][0], list(idxs)] for k, oi, idxs in program]


def run_program(acc, U, B, program, mask_sets):
    desc = describe(U, B, program)
    pool, final, snaps, ref_out = execute(U, B, program, None, True)
    acc.case(True, key=("ref", tuple(program)), sample=lambda: {"program": desc, "masks": "reference"})
    acc.transitions += len(program)
    for i, (f, s) in enumerate(zip(final, snaps)):
        if f != s:
            acc.failure("C13:value_changed_after_creation", {"program": desc, "value": i, "masks": "reference"}, "was %r now %r" % (s, f))
    for i, v in enumerate(pool):
        rv = rebuilt_views(v)
        if rv != final[i]:
            acc.failure("C13:memo_stale", {"program": desc, "value": i, "masks": "reference"}, "memoised %r recomputed %r" % (final[i], rv))
    acc.state(hash(tuple(final)))
    for masks in mask_sets:
        pool2, final2, _, out2 = execute(U, B, program, masks, False)
        acc.case(True, key=(tuple(program), masks))
        acc.transitions += len(program)
        case = {"program": desc, "masks": list(masks)}
        if out2 != ref_out:
            acc.failure("C13:operation_outcome_depends_on_observation", case, "%r vs %r" % (out2, ref_out))
            continue
        for i, (f, s) in enumerate(zip(final2, snaps)):
            if f != s:
                acc.failure("C13:value_depends_on_observation_order", dict(case, value=i), "reference %r, this schedule %r" % (s, f))
                break
        for i, v in enumerate(pool2):
            rv = rebuilt_views(v)
            if rv != final2[i]:
                acc.failure("C13:memo_stale", dict(case, value=i), "memoised %r recomputed %r" % (final2[i], rv))
                break
    return len(pool)


def shard(args):
    tier, seed, first_index = args
    U, B = build_ops()
    acc = Acc(seed=seed, sample_stride=4999)
    thorough = tier == "thorough"
    firsts = step_choices(U, B, 3)
    first = firsts[first_index]
    # depth 1
    masks1 = [(m,) for m in MASKS]
    n1 = run_program(acc, U, B, [first], masks1)
    # depth 2: every second step over the grown pool, all 36 mask pairs
    masks2 = list(itertools.product(MASKS if thorough else ("none", "str", "width", "all"), repeat=2))
    for second in step_choices(U, B, n1):
        n2 = run_program(acc, U, B, [first, second], masks2)
        if thorough and first_index % 8 == 0:
            # depth 3 over a reduced alphabet and the two extreme masks per boundary
            masks3 = list(itertools.product(("none", "all"), repeat=3))
            for third in step_choices(U, B, min(n2, 6), reduced=True):
                if third[0] == "b" and (n2 - 1) not in third[2]:
                    continue  # binary third steps always involve the newest value (the rest was covered at depth 1/2)
                run_program(acc, U, B, [first, second, third], masks3)
    return acc.export()


MUTATORS = [
    ("__setitem__", lambda d: d.__setitem__("fg", 35)),
    ("update", lambda d: d.update({"fg": 35})),
    ("__delitem__", lambda d: d.__delitem__(next(iter(d)))),
    ("pop", lambda d: d.pop(next(iter(d)))),
    ("popitem", lambda d: d.popitem()),
    ("clear", lambda d: d.clear()),
    ("setdefault", lambda d: d.setdefault("underline", True)),
    ("__ior__", lambda d: d.__ior__({"fg": 35})),
]


def mutation_values():
    from curtsies.formatstring import fmtstr

    return seeds() + [fmtstr("k", "red", "bold", bg="blue"), fmtstr("plain")]


def mutation_attempts(acc):
    nvals = len(mutation_values())
    for vi in range(nvals):
        v = mutation_values()[vi]
        before = views(v)
        case = {"value": vi, "attempt": "item assignment"}
        acc.case(True, key=("mut", vi, "setitem"), sample=case)
        try:
            v[0] = "x"
            acc.failure("C13:item_assignment_accepted", case, "")
        except Exception:  # noqa
            pass
        if views(v) != before:
            acc.failure("C13:item_assignment_changed_value", case, "")
        for ci in range(len(v.chunks)):
            for name, fn in MUTATORS:
                v = mutation_values()[vi]  # a fresh value per attempt
                for warm in (False, True):
                    if warm:
                        v = mutation_values()[vi]
                        observe([v], "all")
                    chunk = v.chunks[ci]
                    case = {"value": vi, "run": ci, "attempt": "atts." + name, "memos_filled_first": warm}
                    acc.case(True, key=("mut", vi, ci, name, warm), sample=case)
                    acc.transitions += 1
                    if not chunk.atts and name in ("__delitem__", "pop", "popitem"):
                        continue
                    raised = False
                    try:
                        fn(chunk.atts)
                    except Exception:  # noqa
                        raised = True
                    after = views(v)
                    if not raised:
                        acc.failure("C13:attribute_mutation_accepted:" + name, case, "did not raise; cells before %r after %r" % (before[5], after[5]))
                    elif after != before or rebuilt_views(v) != before:
                        acc.failure("C13:attribute_mutation_changed_value:" + name, case, "before %r after %r" % (before, after))


def twins(acc):
    """A value's terminal string must not depend on which OTHER values were rendered earlier in the process (bool/int twin
    attribute values, one fresh process per rendering order)."""
    from mc import fresh

    n, findings = fresh.twin_findings()
    for _ in range(n):
        acc.case(True)
    acc.transitions += n
    for kind, case, msg in findings:
        acc.failure("C13:terminal_string_depends_on_what_was_rendered_before" if kind == "order_dependent" else "C13:terminal_string_not_what_the_runs_say", case, msg)


def run(ctx):
    rep = Report()
    repeat.run_into(ctx, rep, "C13")
    acc = Acc(seed=ctx.seed)
    twins(acc)
    rep.merge(acc, "bool_int_twin_values_in_fresh_processes")
    setup_ops = build_ops()
    nfirst = len(step_choices(setup_ops[0], setup_ops[1], 3))
    for d in ctx.pmap(shard, [(ctx.tier, ctx.seed, i) for i in range(nfirst)]):
        rep.merge(d, "programs")
    acc = Acc(seed=ctx.seed)
    mutation_attempts(acc)
    rep.merge(acc, "mutation_attempts")
    rep.validated = rep.n
    rep.rule = (
        "all straight-line programs of length 1 and 2 (thorough: length 3 over a reduced alphabet for an eighth of the first steps) over %d unary "
        "and %d binary operation instances with every choice of pool operands (3 seeds + up to 3 results per step), each executed once as "
        "reference (observe everything after every step) and once per observation schedule (6 masks per step boundary; 2 per boundary at "
        "length 3); evaluations = executions; states = distinct final pools; plus 48 bool/int twin attribute sets rendered in 3 orders, one fresh "
        "process per order; plus %d in-place mutation attempts"
        % (len(setup_ops[0]), len(setup_ops[1]), len(MUTATORS))
    )
    rep.bounds = {"program_length": 3 if ctx.thorough else 2, "masks_per_boundary_len1": len(MASKS), "masks_per_boundary_len2": len(MASKS) if ctx.thorough else 4}
    rep.assumptions = ["direct mutation of the chunks list / Chunk internals is outside (Chunk is documented as not part of the API)"]
    return rep
