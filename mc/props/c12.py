"""C12 - leaving any curtsies context restores terminal, tty and signal state (DESIGN.md 4/C12, 3.6).

Fault enumeration on a REAL pty with the real termios / fcntl / signal / fd table.  For every configuration (context kind and options,
initial tty attributes and file status flags, previously installed SIGINT handler and wake-up descriptor, main / non-main thread) and every
body of <= 2 operations, the context is left
  * normally,
  * through an exception raised by the body after every prefix of it,
  * through a KeyboardInterrupt (or a real, synchronous SIGINT via signal.raise_signal) at EVERY asynchronous point executed inside the
    context: the places where CPython can surface one are observable as sys.setprofile events `call` / `c_return` in curtsies frames; the
    body is run once to count them and then once per point,
  * through an OSError from the k-th out_stream.write / os.read / select.select the body makes.
Oracle (before entering vs after leaving): termios.tcgetattr equal; F_GETFL equal (and O_NONBLOCK back to its initial value after every
request); signal.getsignal(SIGINT) the same object; the wake-up fd what it was; the set of open fds unchanged; and, feeding the bytes written
to the out-stream into the reference terminal: cursor visible, main buffer active, main buffer content as before entering a FullscreenWindow.
"""
import fcntl
import itertools
import os
import select
import signal
import sys
import termios
import threading
import time
import types

from mc.runner import Acc, Report
from mc.term import Term
from mc import winharness as WH

LEVEL = "fault_enumeration"


class Boom(Exception):
    pass


def curtsies_dir():
    import curtsies

    return os.path.dirname(os.path.abspath(curtsies.__file__)) + os.sep


# ---------------------------------------------------------------------------------------------------------------------------------
# environment


class InStream:
    encoding = "utf-8"

    def __init__(self, fd):
        self.fd = fd
        self.q = []

    def fileno(self):
        return self.fd

    def push(self, s):
        self.q.extend(s)

    def read(self, n=1):
        if not self.q:
            raise RuntimeError("no cursor report available")
        return self.q.pop(0)


def current_wakeup_fd():
    old = signal.set_wakeup_fd(-1)
    try:
        signal.set_wakeup_fd(old)
    except (OSError, ValueError):
        return ("closed", old)  # the installed wake-up descriptor is not open any more
    return old


def open_fds():
    out = set()
    for name in os.listdir("/proc/self/fd"):
        try:
            os.fstat(int(name))
            out.add(int(name))
        except OSError:
            pass
    return frozenset(out)


TTY_VARIANTS = ("canonical_echo", "rawish", "ixon_off", "odd_vmin_vtime", "noecho", "cbreak_already")


class Env:
    """One pty + proxy out-stream per worker."""

    def __init__(self):
        self.proxy = WH.Proxy()
        self.proxy.set_size(4, 6)
        self.slave = self.proxy.slave
        self.master = self.proxy.master
        self.ins = InStream(self.slave)
        self.pristine = termios.tcgetattr(self.slave)
        self.pristine_fl = fcntl.fcntl(self.slave, fcntl.F_GETFL)
        self.other_pipe = os.pipe()
        os.set_blocking(self.other_pipe[1], False)
        self.custom_handler = lambda signum, frame: None

    def reset(self, tty_variant, nonblock, prev_handler, prev_wakeup):
        termios.tcflush(self.slave, termios.TCIOFLUSH)
        a = [x[:] if isinstance(x, list) else x for x in self.pristine]
        if tty_variant == "rawish":
            a[3] &= ~(termios.ICANON | termios.ECHO | termios.ISIG)
            a[0] &= ~(termios.ICRNL | termios.IXON)
        elif tty_variant == "ixon_off":
            a[0] &= ~termios.IXON
        elif tty_variant == "odd_vmin_vtime":
            a[3] &= ~termios.ICANON
            a[6][termios.VMIN] = 0
            a[6][termios.VTIME] = 3
        elif tty_variant == "noecho":
            a[3] &= ~termios.ECHO
        elif tty_variant == "cbreak_already":
            a[3] &= ~(termios.ICANON | termios.ECHO)
            a[6][termios.VMIN] = 1
            a[6][termios.VTIME] = 0
        termios.tcsetattr(self.slave, termios.TCSANOW, a)
        fcntl.fcntl(self.slave, fcntl.F_SETFL, (self.pristine_fl | os.O_NONBLOCK) if nonblock else (self.pristine_fl & ~os.O_NONBLOCK))
        signal.signal(signal.SIGINT, {"custom": self.custom_handler, "SIG_DFL": signal.SIG_DFL, "SIG_IGN": signal.SIG_IGN}.get(prev_handler, signal.default_int_handler))
        signal.set_wakeup_fd(self.other_pipe[1] if prev_wakeup == "pipe" else -1, warn_on_full_buffer=False)
        while select.select([self.other_pipe[0]], [], [], 0)[0]:
            os.read(self.other_pipe[0], 1024)
        self.term = Term(4, 6)
        self.term.feed("main\r\nscreen")
        self.term.answer = self.ins.push
        self.proxy.term = self.term
        self.proxy.fail_after = None
        del self.ins.q[:]

    def snapshot(self, with_signals=True):
        s = {
            "tty": termios.tcgetattr(self.slave),
            "fl": fcntl.fcntl(self.slave, fcntl.F_GETFL),
            "fds": open_fds(),
            "cursor_visible": self.term.visible,
            "in_alt": self.term.in_alt,
            "main": tuple(tuple(r) for r in self.term.main),
        }
        s["sigmask"] = sorted(int(x) for x in signal.pthread_sigmask(signal.SIG_BLOCK, []))
        if with_signals:
            s["sigint"] = signal.getsignal(signal.SIGINT)
            s["wakeup"] = current_wakeup_fd()
        return s

    def feed_input(self, data):
        os.write(self.master, data)
        select.select([self.slave], [], [], 0.5)


# ---------------------------------------------------------------------------------------------------------------------------------
# contexts and bodies


def make_events():
    from curtsies import events

    class Ev(events.Event):
        pass

    class SEv(events.ScheduledEvent):
        pass

    return Ev, SEv


def input_ops():
    Ev, SEv = make_events()

    def send0(env, inp):
        inp.send(0)

    def key_send0(env, inp):
        env.feed_input(b"a")
        inp.send(0)

    def esc_send0(env, inp):
        env.feed_input(b"\x1b[A")
        inp.send(0)

    def paste_send0(env, inp):
        env.feed_input(b"abcdefghijklmn")
        inp.send(0)

    def big_paste_send0(env, inp):
        # more than one full 1 024-byte read is pending at once
        data = (b"abcdefgh" * 200)[:1500]
        os.write(env.master, data)
        import array
        buf = array.array("i", [0])
        deadline = time.time() + 2.0
        while time.time() < deadline:
            fcntl.ioctl(env.slave, termios.FIONREAD, buf)
            if buf[0] >= len(data):
                break
            select.select([], [], [], 0.0005)
        inp.send(0)
        inp.send(0)

    def send_timeout(env, inp):
        inp.send(0.002)

    def event_trigger(env, inp):
        inp.event_trigger(Ev)()
        inp.send(0)

    def sched_trigger(env, inp):
        inp.scheduled_event_trigger(SEv)(time.time() - 1)
        inp.send(0)

    def unget(env, inp):
        inp.unget_bytes(b"x")
        inp.send(0)

    def ts_trigger(env, inp):
        inp.threadsafe_event_trigger(Ev)()
        inp.send(0)

    return [("send0", send0), ("key_send0", key_send0), ("esc_send0", esc_send0), ("paste_send0", paste_send0), ("big_paste_send0", big_paste_send0), ("send_timeout", send_timeout),
            ("event_trigger", event_trigger), ("sched_trigger", sched_trigger), ("unget", unget), ("ts_trigger", ts_trigger)]


def window_ops(cursor_aware):
    from curtsies.formatstring import fmtstr

    A = [fmtstr("ab", "red"), fmtstr("c")]
    B = [fmtstr("x" * 6), fmtstr(""), fmtstr("yz", "bold"), fmtstr("w"), fmtstr("v")]

    def render_a(env, w):
        w.render_to_terminal(A, (0, 1))

    def render_b(env, w):
        w.render_to_terminal(B, (1, 0))

    ops = [("render_a", render_a), ("render_b", render_b)]
    if cursor_aware:
        def vdiff(env, w):
            w.get_cursor_vertical_diff()

        ops.append(("vdiff", vdiff))
    return ops


def unentered_ops():
    """A program that never enters the Input (the README's `with Cbreak(sys.stdin): for e in Input(): ...` style) and itself
    switches the stream between blocking and non-blocking between requests."""
    base = dict(input_ops())

    def set_nonblocking(env, inp):
        os.set_blocking(env.slave, False)

    def set_blocking(env, inp):
        os.set_blocking(env.slave, True)

    return [("send0", base["send0"]), ("key_send0", base["key_send0"]), ("paste_send0", base["paste_send0"]), ("set_nonblocking", set_nonblocking), ("set_blocking", set_blocking)]


class Unentered:
    """Cbreak is entered; the Input it hands out never is."""

    def __init__(self, env, **kw):
        import curtsies
        from curtsies.termhelpers import Cbreak

        self.cb = Cbreak(env.ins)
        self.inp = curtsies.Input(in_stream=env.ins, **kw)

    def __enter__(self):
        self.cb.__enter__()
        return self.inp

    def __exit__(self, *exc):
        return self.cb.__exit__(*exc)


def helper_ops():
    def noop(env, obj):
        pass

    def read_nb(env, obj):
        try:
            if select.select([env.slave], [], [], 0)[0]:
                os.read(env.slave, 10)
        except (BlockingIOError, OSError):
            pass

    def tcget(env, obj):
        termios.tcgetattr(env.slave)

    return [("noop", noop), ("read_nb", read_nb), ("tcget", tcget)]


class Nested:
    """outer context entered first, then inner; leaving inner then outer."""

    def __init__(self, outer, inner):
        self.outer, self.inner = outer, inner

    def __enter__(self):
        self.outer.__enter__()
        try:
            return self.inner.__enter__()
        except BaseException:
            self.outer.__exit__(*sys.exc_info())
            raise

    def __exit__(self, *exc):
        try:
            self.inner.__exit__(*exc)
        finally:
            self.outer.__exit__(*exc)


def contexts():
    """name -> (factory(env) -> context manager, ops, is_input)"""
    import curtsies
    from curtsies.termhelpers import Cbreak, Nonblocking, Termmode

    out = []
    for sig in (False, True):
        for dts in (False, True):
            out.append(("Input(sigint_event=%s,disable_terminal_start_stop=%s)" % (sig, dts),
                        (lambda env, sig=sig, dts=dts: curtsies.Input(in_stream=env.ins, sigint_event=sig, disable_terminal_start_stop=dts)), "input"))
    for hide in (True, False):
        out.append(("FullscreenWindow(hide_cursor=%s)" % hide, (lambda env, hide=hide: curtsies.FullscreenWindow(out_stream=env.proxy, hide_cursor=hide)), "fullscreen"))
        for keep in (False, True):
            out.append(("CursorAwareWindow(hide_cursor=%s,keep_last_line=%s)" % (hide, keep),
                        (lambda env, hide=hide, keep=keep: curtsies.CursorAwareWindow(out_stream=env.proxy, in_stream=env.ins, hide_cursor=hide, keep_last_line=keep)), "cursoraware"))
    out.append(("Cbreak", (lambda env: Cbreak(env.ins)), "helper"))
    out.append(("Nonblocking", (lambda env: Nonblocking(env.ins)), "helper"))
    out.append(("Termmode", (lambda env: Termmode(env.ins, termios.tcgetattr(env.slave))), "helper"))
    out.append(("Input never entered, used inside Cbreak", (lambda env: Unentered(env, sigint_event=False)), "input_unentered"))
    out.append(("Input nested in Input", (lambda env: Nested(curtsies.Input(in_stream=env.ins, sigint_event=True), curtsies.Input(in_stream=env.ins, sigint_event=False))), "input"))
    out.append(("Input inside FullscreenWindow", (lambda env: Nested(curtsies.FullscreenWindow(out_stream=env.proxy), curtsies.Input(in_stream=env.ins, sigint_event=True))), "input"))
    return out


def ops_for(kind):
    if kind == "input":
        return input_ops()
    if kind == "input_unentered":
        return unentered_ops()
    if kind == "fullscreen":
        return window_ops(False)
    if kind == "cursoraware":
        return window_ops(True)
    return helper_ops()


# ---------------------------------------------------------------------------------------------------------------------------------
# one execution


class FaultyOS:
    """Forwards to the real os module; the k-th read raises OSError once."""

    def __init__(self, k, eagain=False):
        self._k = k
        self._n = 0
        self._eagain = eagain

    def __getattr__(self, name):
        return getattr(os, name)

    def read(self, fd, n):
        self._n += 1
        if self._n == self._k:
            if self._eagain:
                # select reported the stream ready, but what was there is gone (flushed, or read by someone else)
                termios.tcflush(fd, termios.TCIFLUSH) if os.isatty(fd) else None
                raise BlockingIOError(11, "Resource temporarily unavailable")
            raise OSError(5, "injected read error")
        return os.read(fd, n)


class FaultySelect:
    def __init__(self, k):
        self._k = k
        self._n = 0

    def __getattr__(self, name):
        return getattr(select, name)

    def select(self, *a):
        self._n += 1
        if self._n == self._k:
            raise OSError(4, "injected select error")
        return select.select(*a)


def opposite(cfg):
    return {"tty": "canonical_echo" if cfg["tty"] != "canonical_echo" else "rawish", "nonblock": not cfg["nonblock"],
            "prev_handler": "default" if cfg["prev_handler"] != "default" else "custom", "prev_wakeup": "none" if cfg["prev_wakeup"] == "pipe" else "pipe"}


def execute(env, cfg, factory, kind, body, crash, cdir, lifecycle="fresh"):
    """Runs one case.  lifecycle: 'fresh' (object built right before entering), 'constructed_earlier' (object built while the
    environment was different, then entered), 'reused' (object already used once in a different environment, then entered again). crash: None | ('prefix', i) | ('async', k, 'kbd'|'signal') | ('count',) | ('write', k) | ('read', k) | ('select', k).
    Returns (n_async_points or None, list of (signature, message), outcome label)."""
    import curtsies.input as ci

    ctx_early = None
    if lifecycle != "fresh":
        o = opposite(cfg)
        env.reset(o["tty"], o["nonblock"], o["prev_handler"], o["prev_wakeup"])
        ctx_early = factory(env)
        if lifecycle == "reused":
            try:
                with ctx_early:
                    pass
            except Exception as ex:  # noqa
                return None, [("C12:reuse_first_use_raises:" + type(ex).__name__, repr(ex))], "first_use_failed"
    env.reset(cfg["tty"], cfg["nonblock"], cfg["prev_handler"], cfg["prev_wakeup"])
    saved_stdin = None
    if cfg.get("stdin_closed"):
        try:
            saved_stdin = os.dup(0)
            os.close(0)
        except OSError:
            saved_stdin = None
    try:
        return _execute(env, cfg, factory, kind, body, crash, cdir, ctx_early)
    finally:
        if saved_stdin is not None:
            try:
                os.close(0)
            except OSError:
                pass
            os.dup2(saved_stdin, 0)
            os.close(saved_stdin)


def _execute(env, cfg, factory, kind, body, crash, cdir, ctx_early):
    import curtsies.input as ci

    s0 = env.snapshot()
    fails = []
    state = {"armed": False, "count": 0}
    want_k = crash[1] if crash and crash[0] in ("async", "async_caught") else None
    how = crash[2] if crash and crash[0] in ("async", "async_caught") else None

    def prof(frame, event, arg):
        if not state["armed"]:
            return
        if event == "call":
            fn = frame.f_code.co_filename
        elif event == "c_return":
            fn = frame.f_code.co_filename
        else:
            return
        if not fn.startswith(cdir):
            return
        state["count"] += 1
        if want_k is not None and state["count"] == want_k:
            state["armed"] = False
            if how == "kbd":
                raise KeyboardInterrupt()
            signal.raise_signal(signal.SIGINT)

    outcome = "normal"
    between_request_flags = []
    expected_nb = os.O_NONBLOCK if cfg["nonblock"] else 0
    use_prof = crash is not None and crash[0] in ("async", "count", "async_caught")
    if crash and crash[0] == "read":
        ci.os = FaultyOS(crash[1])
    if crash and crash[0] == "read_eagain":
        ci.os = FaultyOS(crash[1], eagain=True)
    if crash and crash[0] == "select":
        ci.select = FaultySelect(crash[1])
    try:
        ctx = ctx_early if ctx_early is not None else factory(env)
        if use_prof:
            sys.setprofile(prof)
        try:
            with ctx as obj:
                state["armed"] = True
                if crash and crash[0] == "write":
                    env.proxy.fail_after = crash[1]
                for i, (name, op) in enumerate(body):
                    if crash == ("prefix", i):
                        raise Boom()
                    if crash and crash[0] == "async_caught":
                        # the program handles the interrupt itself inside the context and carries on to a normal exit
                        try:
                            op(env, obj)
                        except KeyboardInterrupt:
                            outcome = "interrupt_caught_inside"
                    else:
                        op(env, obj)
                    if name in ("set_nonblocking", "set_blocking"):
                        expected_nb = os.O_NONBLOCK if name == "set_nonblocking" else 0
                    if kind.startswith("input"):
                        between_request_flags.append((fcntl.fcntl(env.slave, fcntl.F_GETFL) & os.O_NONBLOCK, expected_nb))
                if crash == ("prefix", len(body)):
                    raise Boom()
                state["armed"] = False
                env.proxy.fail_after = None
        finally:
            state["armed"] = False
            sys.setprofile(None)
            env.proxy.fail_after = None
    except Boom:
        outcome = "exception_after_prefix"
    except KeyboardInterrupt:
        outcome = "KeyboardInterrupt"
    except OSError as ex:
        outcome = "OSError"
        if not (crash and crash[0] in ("write", "read", "select", "read_eagain")):
            fails.append(("C12:unexpected_OSError", repr(ex)))
    except Exception as ex:  # noqa
        outcome = "exception:" + type(ex).__name__
        fails.append(("C12:body_raises:" + type(ex).__name__, repr(ex)))
    finally:
        ci.os = os
        ci.select = select
    s1 = env.snapshot()
    # ---- oracle ----------------------------------------------------------------------------------------------
    if s1["tty"] != s0["tty"]:
        fails.append(("C12:tty_attributes_not_restored", "before %r after %r" % (s0["tty"][:4], s1["tty"][:4])))
    want_fl = s0["fl"]
    if kind == "input_unentered":
        # nothing that was entered touches the status flags: they are what the program itself set last
        want_fl = (s0["fl"] & ~os.O_NONBLOCK) | expected_nb
    if s1["fl"] != want_fl:
        fails.append(("C12:file_status_flags_not_restored", "before %o after %o" % (want_fl, s1["fl"])))
        fcntl.fcntl(env.slave, fcntl.F_SETFL, s0["fl"])
    if s1["sigint"] is not s0["sigint"]:
        fails.append(("C12:sigint_handler_not_restored", "before %r after %r" % (s0["sigint"], s1["sigint"])))
    if s1["sigmask"] != s0["sigmask"]:
        fails.append(("C12:signal_mask_not_restored", "blocked signals before %r after %r" % (s0["sigmask"], s1["sigmask"])))
        try:
            signal.pthread_sigmask(signal.SIG_SETMASK, s0["sigmask"])  # a SIGINT that was pending behind the mask arrives right here
        except KeyboardInterrupt:
            pass
    if s1["wakeup"] != s0["wakeup"]:
        fails.append(("C12:wakeup_fd_not_restored", "before %r after %r" % (s0["wakeup"], s1["wakeup"])))
    if s1["fds"] != s0["fds"]:
        leaked = sorted(s1["fds"] - s0["fds"])
        sig = "C12:file_descriptors_leaked"
        nts = sum(1 for n, _ in body if n == "ts_trigger")
        if nts and len(leaked) in range(2, 2 * nts + 1, 2) and not (s0["fds"] - s1["fds"]):
            sig = "C12:threadsafe_event_trigger_pipe_never_closed"
        fails.append((sig, "leaked %r closed %r" % (leaked, sorted(s0["fds"] - s1["fds"]))))
    if not s1["cursor_visible"]:
        fails.append(("C12:cursor_left_hidden", ""))
    if s1["in_alt"]:
        fails.append(("C12:alternate_screen_not_left", ""))
    if kind == "fullscreen" or "FullscreenWindow" in cfg["context"]:
        if s1["main"] != s0["main"]:
            fails.append(("C12:main_screen_content_changed", ""))
    if crash and crash[0] == "async_caught":
        between_request_flags = []  # an interrupted request may leave the stream as it was in the middle of the read; exit must repair it
    if any(f != want for f, want in between_request_flags):
        fails.append(("C12:stream_nonblocking_between_requests", "(O_NONBLOCK after the operation, what the program had set) per operation: %r" % (between_request_flags,)))
    for fd in s1["fds"] - s0["fds"]:
        try:
            os.close(fd)
        except OSError:
            pass
    return (state["count"] if use_prof else None), fails, outcome


# ---------------------------------------------------------------------------------------------------------------------------------


def configs_for(kind, thorough):
    base = {"tty": "canonical_echo", "nonblock": False, "prev_handler": "default", "prev_wakeup": "none"}
    out = [dict(base)]
    for v in TTY_VARIANTS[1:]:
        out.append(dict(base, tty=v))
    out.append(dict(base, nonblock=True))
    out.append(dict(base, prev_handler="custom"))
    out.append(dict(base, prev_wakeup="pipe"))
    out.append(dict(base, tty="rawish", nonblock=True, prev_handler="custom", prev_wakeup="pipe"))
    out.append(dict(base, prev_handler="SIG_DFL"))
    out.append(dict(base, prev_handler="SIG_IGN", prev_wakeup="pipe"))
    # descriptor 0 is free (the program closed its stdin): the next pipe() or open() gets number 0
    out.append(dict(base, stdin_closed=True))
    out.append(dict(base, stdin_closed=True, prev_handler="custom", prev_wakeup="pipe"))
    return out


def shard(args):
    tier, seed, ci_idx, cfg_idx = args
    thorough = tier == "thorough"
    acc = Acc(seed=seed, sample_stride=997)
    env = Env()
    # asynchronous points: function entries / C-function returns in curtsies' own frames.  Injecting an *exception* inside the
    # functions curtsies calls in other modules (re, blessed, logging) was tried and withdrawn: it corrupts those modules' global
    # caches (e.g. re._cache is popped and not re-inserted), which poisons every later case run in the same worker process and
    # raises alarms that have nothing to do with curtsies.
    cdir = curtsies_dir()
    name, factory, kind = contexts()[ci_idx]
    cfg = dict(configs_for(kind, thorough)[cfg_idx], context=name)
    ops = ops_for(kind)
    bodies = [[]] + [[o] for o in ops]
    two = [[a, b] for a in ops for b in ops if not a[0].startswith("big_") and not b[0].startswith("big_")]
    bodies += two if (thorough or cfg_idx in (0, 9)) else two[:: 3]
    if kind == "input_unentered":
        # every sequence of up to 4 operations: the program flips the blocking mode between requests that really read
        depth = 4 if (thorough or cfg_idx in (0, 6)) else 3
        bodies = [list(b) for d in range(depth + 1) for b in itertools.product(ops, repeat=d)]
    async_cfg = thorough or cfg_idx in (0, 7, 8, 9)
    if kind == "input_unentered":
        # an asynchronous exception inside the Nonblocking helper's own __enter__/__exit__ (used by every read) is outside that
        # helper's context, and a never-entered Input has no enclosing context of its own whose exit could repair it
        async_cfg = False
    reusable = "Fullscreen" not in name  # blessed's fullscreen() context manager is one-shot by construction

    def record(body, crash, fails, outcome, lifecycle="fresh"):
        case = {"context": name, "config": {k: v for k, v in cfg.items() if k != "context"}, "body": [n for n, _ in body], "crash": list(crash) if crash else None, "lifecycle": lifecycle}
        acc.case(crash is not None or lifecycle != "fresh", key=(name, cfg_idx, tuple(n for n, _ in body), crash, lifecycle), sample=case)
        acc.transitions += 1
        acc.outcome(outcome)
        for sig, msg in fails:
            acc.failure(sig, case, msg)

    for body in bodies:
        _, fails, outcome = execute(env, cfg, factory, kind, body, None, cdir)
        record(body, None, fails, outcome)
        for i in range(len(body) + 1):
            _, fails, outcome = execute(env, cfg, factory, kind, body, ("prefix", i), cdir)
            record(body, ("prefix", i), fails, outcome)
        # the same object constructed while the environment was different / already used once before
        lifecycles = ["constructed_earlier"] + (["reused"] if reusable else [])
        if len(body) <= 1:
            for lc in lifecycles:
                for crash in [None] + [("prefix", i) for i in range(len(body) + 1)]:
                    _, fails, outcome = execute(env, cfg, factory, kind, body, crash, cdir, lc)
                    record(body, crash, fails, outcome, lc)
        if (len(body) == 1 or (thorough and len(body) == 2)) and async_cfg:
            n, fails, outcome = execute(env, cfg, factory, kind, body, ("count",), cdir)
            record(body, ("count",), fails, outcome)
            points = list(range(1, (n or 0) + 1))
            if len(points) > 700:
                # a body with thousands of points (a multi-kilobyte paste: one generator step per byte): all of the first 60,
                # then every 97th, and the last 12
                points = points[:60] + points[60:-12:97] + points[-12:]
                acc.add("async_points_sampled_bodies")
            for k in points:
                for how in (("kbd", "signal") if cfg["prev_handler"] in ("default", "custom") else ("kbd",)):
                    _, fails, outcome = execute(env, cfg, factory, kind, body, ("async", k, how), cdir)
                    record(body, ("async", k, how), fails, outcome)
                    if kind == "input" and how == "kbd":
                        _, fails, outcome = execute(env, cfg, factory, kind, body, ("async_caught", k, how), cdir)
                        record(body, ("async_caught", k, how), fails, outcome)
            acc.add("async_points", n or 0)
        if len(body) == 1 and cfg_idx in (0, 9, 12):
            faults = [("write", k) for k in range(0, 12)] if kind != "input" and kind != "helper" else []
            if kind == "input":
                faults = [("read", k) for k in range(1, 4)] + [("select", k) for k in range(1, 4)] + [("read_eagain", k) for k in range(1, 4)]
            for f in faults:
                _, fails, outcome = execute(env, cfg, factory, kind, body, f, cdir)
                record(body, f, fails, outcome)
    # repeated enter/exit: no descriptor may leak
    if cfg_idx == 0:
        env.reset(cfg["tty"], cfg["nonblock"], cfg["prev_handler"], cfg["prev_wakeup"])
        before = open_fds()
        for _ in range(300):
            try:
                with factory(env):
                    pass
            except Exception as ex:  # noqa
                acc.failure("C12:enter_exit_raises:" + type(ex).__name__, {"context": name}, repr(ex))
                break
        after = open_fds()
        acc.case(True, key=(name, "300 cycles"))
        if after != before:
            acc.failure("C12:file_descriptors_leaked", {"context": name, "cycles": 300}, "leaked %r" % (sorted(after - before),))
    acc.state(hash((name, cfg_idx)))
    return acc.export()


def thread_shard(args):
    """Input used from a non-main thread (no signal handling there)."""
    tier, seed = args
    import curtsies

    acc = Acc(seed=seed)
    env = Env()
    cdir = curtsies_dir()
    result = {}

    def work():
        ops = input_ops()
        for sig in (False, True):
            factory = lambda env, sig=sig: curtsies.Input(in_stream=env.ins, sigint_event=sig)
            cfg = {"tty": "canonical_echo", "nonblock": False, "prev_handler": "custom", "prev_wakeup": "pipe", "context": "Input(sigint_event=%s) in a non-main thread" % sig}
            for body in [[]] + [[o] for o in ops]:
                for crash in [None] + [("prefix", i) for i in range(len(body) + 1)]:
                    _, fails, outcome = execute_thread(env, cfg, factory, "input", body, crash, cdir)
                    case = {"context": cfg["context"], "body": [n for n, _ in body], "crash": list(crash) if crash else None}
                    acc.case(True, key=(cfg["context"], tuple(n for n, _ in body), crash), sample=case)
                    acc.transitions += 1
                    for s, m in fails:
                        acc.failure(s, case, m)

    t = threading.Thread(target=work)
    t.start()
    t.join()
    return acc.export()


def cross_thread_shard(args):
    """One Input object used on the main thread AND as a context on another thread, while a second Input holds a context (and
    the process-wide signal wake-up descriptor) on the main thread.  Descriptor numbers freed by the first use are reused by the
    second Input, so anything the first object still remembers about them is stale.  Nothing that belongs to the second Input or
    to the program may be touched when the first one's context is left on either thread."""
    tier, seed = args
    import curtsies

    acc = Acc(seed=seed)
    env = Env()
    ops = dict(input_ops())
    bodies = [[], ["send0"], ["key_send0"], ["ts_trigger"], ["key_send0", "send0"]]

    def use(inp, body, crash, errs):
        try:
            with inp:
                for i, n in enumerate(body):
                    if crash == i:
                        raise Boom()
                    ops[n](env, inp)
                if crash == len(body):
                    raise Boom()
        except Boom:
            pass
        except Exception as ex:  # noqa
            errs.append(("C12:body_raises:" + type(ex).__name__, repr(ex)))

    def on_thread(fn):
        t = threading.Thread(target=fn)
        t.start()
        t.join()

    def alive(fd):
        try:
            os.fstat(fd)
            return True
        except OSError:
            return False

    for sig_a in (False, True):
        for sig_b in (False, True):
            for order in ("main_then_thread", "thread_then_main", "main_thread_main"):
                for body in bodies:
                    for crash in [None] + list(range(len(body) + 1)):
                        env.reset("canonical_echo", False, "custom", "none")
                        case = {"context": "one Input on main thread and worker thread, another Input entered on the main thread", "sigint_event": [sig_a, sig_b], "order": order, "body": body, "crash": crash}
                        acc.case(True, key=(sig_a, sig_b, order, tuple(body), crash), sample=case)
                        acc.transitions += 1
                        fails = []
                        fds00 = open_fds()
                        a = curtsies.Input(in_stream=env.ins, sigint_event=sig_a)
                        steps = {"main_then_thread": ["main", "B", "thread"], "thread_then_main": ["thread", "B", "main"], "main_thread_main": ["main", "B", "thread", "main"]}[order]
                        b = None
                        try:
                            for st in steps:
                                if st == "B":
                                    b = curtsies.Input(in_stream=env.ins, sigint_event=sig_b)
                                    b.__enter__()
                                    s0 = env.snapshot()
                                    continue
                                if st == "main":
                                    use(a, body, crash, fails)
                                else:
                                    on_thread(lambda: use(a, body, crash, fails))
                                if b is not None:
                                    s1 = env.snapshot()
                                    lost = sorted(s0["fds"] - s1["fds"])
                                    if lost:
                                        fails.append(("C12:foreign_descriptors_closed", "descriptors %r open before the context on the %s thread are closed after it" % (lost, st)))
                                    extra = sorted(s1["fds"] - s0["fds"])
                                    nts = body.count("ts_trigger")
                                    if extra and not (nts and len(extra) <= 2 * nts * 3):
                                        fails.append(("C12:file_descriptors_leaked", "leaked %r" % (extra,)))
                                    if s1["wakeup"] != s0["wakeup"]:
                                        fails.append(("C12:wakeup_fd_not_restored", "before %r after %r" % (s0["wakeup"], s1["wakeup"])))
                                        if isinstance(s1["wakeup"], tuple):
                                            break  # the process-wide wake-up descriptor is gone: nothing further in this case means anything
                                    if s1["sigint"] is not s0["sigint"]:
                                        fails.append(("C12:sigint_handler_not_restored", "another Input's context on the %s thread changed the handler" % st))
                                    if b.wakeup_read_fd is not None and not alive(b.wakeup_read_fd):
                                        fails.append(("C12:foreign_descriptors_closed", "the entered Input's wake-up pipe is closed"))
                                    # the Input that is still entered must keep working
                                    try:
                                        env.feed_input(b"k")
                                        if b.send(0) != "k":
                                            fails.append(("C12:entered_input_broken_by_other_context", "no keypress"))
                                    except Exception as ex:  # noqa
                                        fails.append(("C12:entered_input_broken_by_other_context", repr(ex)))
                        finally:
                            if b is not None:
                                try:
                                    b.__exit__(None, None, None)
                                except Exception as ex:  # noqa
                                    fails.append(("C12:exit_raises:" + type(ex).__name__, repr(ex)))
                        for fd in open_fds() - fds00:
                            try:
                                os.close(fd)
                            except OSError:
                                pass
                        for sg, m in fails:
                            acc.failure(sg, case, m)
    return acc.export()


def execute_thread(env, cfg, factory, kind, body, crash, cdir):
    """Like execute(), but signal state can only be touched from the main thread: it is set up once and only read here."""
    import curtsies.input as ci

    termios.tcflush(env.slave, termios.TCIOFLUSH)
    termios.tcsetattr(env.slave, termios.TCSANOW, env.pristine)
    fcntl.fcntl(env.slave, fcntl.F_SETFL, env.pristine_fl)
    env.term = Term(4, 6)
    env.proxy.term = env.term
    s0 = env.snapshot(with_signals=False)
    sig0 = signal.getsignal(signal.SIGINT)
    fails = []
    outcome = "normal"
    try:
        with factory(env) as obj:
            for i, (name, op) in enumerate(body):
                if crash == ("prefix", i):
                    raise Boom()
                op(env, obj)
            if crash == ("prefix", len(body)):
                raise Boom()
    except Boom:
        outcome = "exception_after_prefix"
    except Exception as ex:  # noqa
        fails.append(("C12:body_raises:" + type(ex).__name__, repr(ex)))
    s1 = env.snapshot(with_signals=False)
    if s1["tty"] != s0["tty"]:
        fails.append(("C12:tty_attributes_not_restored", "non-main thread"))
    if s1["fl"] != s0["fl"]:
        fails.append(("C12:file_status_flags_not_restored", "non-main thread"))
    if signal.getsignal(signal.SIGINT) is not sig0:
        fails.append(("C12:sigint_handler_not_restored", "non-main thread"))
    if s1["fds"] != s0["fds"]:
        leaked = sorted(s1["fds"] - s0["fds"])
        sig = "C12:file_descriptors_leaked"
        if any(n == "ts_trigger" for n, _ in body) and len(leaked) == 2:
            sig = "C12:threadsafe_event_trigger_pipe_never_closed"
        fails.append((sig, "leaked %r" % (leaked,)))
        for fd in leaked:
            try:
                os.close(fd)
            except OSError:
                pass
    return None, fails, outcome


def check_import_in_thread(acc):
    """New processes in which the library is first imported on a non-main thread (mc/import_in_thread.py)."""
    import json
    import subprocess

    from mc import runner

    script = os.path.join(os.path.dirname(os.path.dirname(os.path.abspath(__file__))), "import_in_thread.py")
    for scenario in ("thread_only", "thread_then_main", "main_after_thread_import"):
        case = {"context": "Input", "scenario": "curtsies first imported on a non-main thread of a new process: " + scenario}
        acc.case(True, key=("import_in_thread", scenario), sample=case)
        acc.transitions += 1
        r = subprocess.run([sys.executable, script, runner.REPO, scenario], capture_output=True, text=True, timeout=120, env=dict(os.environ, TERM="xterm"))
        try:
            res = json.loads(r.stdout.strip().splitlines()[-1])
        except Exception:  # noqa
            acc.failure("harness:import_in_thread", case, (r.stdout + r.stderr)[-500:])
            continue
        if not (res.get("file") or "").startswith(runner.REPO):
            acc.failure("harness:import_in_thread", case, "imported %r" % res.get("file"))
            continue
        for e in res["errors"]:
            acc.failure("C12:body_raises:" + e.split(":")[0], case, e)
        b, a_ = res["before"], res["after"]
        if a_["tty"] != b["tty"]:
            acc.failure("C12:tty_attributes_not_restored", case, "before %r after %r" % (b["tty"][:4], a_["tty"][:4]))
        if a_["fl"] != b["fl"]:
            acc.failure("C12:file_status_flags_not_restored", case, "")
        if a_["fds"] != b["fds"]:
            acc.failure("C12:file_descriptors_leaked", case, "before %r after %r" % (b["fds"], a_["fds"]))
        if a_["sigint"] != b["sigint"]:
            acc.failure("C12:sigint_handler_not_restored", case, "before %r after %r" % (b["sigint"], a_["sigint"]))
        if a_["mask"] != b["mask"]:
            acc.failure("C12:signal_mask_not_restored", case, "")


def run(ctx):
    rep = Report()
    acc = Acc(seed=ctx.seed)
    check_import_in_thread(acc)
    rep.merge(acc, "first_import_on_a_non_main_thread")
    shards = []
    nctx = len(contexts())
    for ci_idx in range(nctx):
        kind = contexts()[ci_idx][2]
        ncfg = len(configs_for(kind, ctx.thorough))
        for cfg_idx in range(ncfg):
            shards.append((ctx.tier, ctx.seed, ci_idx, cfg_idx))
    # signal handlers can only be manipulated from a process's main thread: every shard runs in a pool worker's main thread
    for d in ctx.pmap(shard, shards):
        rep.merge(d, "contexts")
    for d in ctx.pmap(thread_shard, [(ctx.tier, ctx.seed), (ctx.tier, ctx.seed + 1)][:1]):
        rep.merge(d, "non_main_thread")
    for d in ctx.pmap(cross_thread_shard, [(ctx.tier, ctx.seed)]):
        rep.merge(d, "same_input_on_two_threads")
    rep.validated = rep.n
    rep.rule = (
        "%d context kinds/options x 12 initial environments (6 tty attribute sets, O_NONBLOCK on/off, previous SIGINT handler default/custom, "
        "previous wake-up fd none/pipe, all combined) x bodies of <= 2 operations (requests with nothing / a key / an escape sequence / a paste "
        "pending, a timed request, each trigger factory + callback, unget_bytes; two renders; cursor diff) x crash points: normal exit, an "
        "exception after every prefix, KeyboardInterrupt and a real synchronous SIGINT at every asynchronous point (profile events call/c_return "
        "in curtsies frames; one-operation bodies quick, two-operation bodies thorough), OSError from the k-th write/read/select; 300 enter/exit "
        "cycles; Input in a non-main thread; a never-entered Input inside Cbreak with the program flipping the blocking mode (all bodies of <= 4 "
        "operations, prefix crash points); one Input used on the main thread and a worker thread (3 orders x 5 bodies x crash points) while another "
        "Input holds a context on the main thread. evaluations = executions on a real pty; non-trivial = the context is left through a fault" % nctx
    )
    rep.assumptions = [
        "crash points lie between __enter__ returning and __exit__ starting; asynchronous exceptions are injected only where CPython can raise them",
        "a SIGINT arriving while a C call blocks is represented by the c_return point right after the call",
        "terminal state is judged by feeding the bytes written to the out-stream into mc/term.py",
    ]
    return rep
