"""C14 - applying or removing formatting touches exactly the named attributes (DESIGN.md 4/C14).

Space  : bases = plain str texts + every FmtStr of U_layout(2,2,P3) (91 values, empty runs, runs that already carry fg / bold);
         every single attribute (8 fg, 8 bg, 6 styles x True/False) in every spelling (positional 'red' / 'on_blue' / 'bold', fg='red',
         fg=31, bg=..., style=..., bold=True/False, the 23 fmtfuncs helpers, copy_with_new_atts); every pair and triple of distinct
         attribute kinds applied in one call and nested in every order, in two spellings each; new_with_atts_removed for every subset of
         <= 2 names; copy_with_new_str on uniformly formatted values; shared_atts on every value; a catalogue of invalid specifications.
Oracle : cells(result) == base cells with atts <- atts U spec (later wins), text untouched; all spellings of one attribute set give the
         same cells and the same terminal string; removal deletes exactly the named keys; every (k, v) in shared_atts is held by every
         character; invalid => ValueError.
"""
import itertools

from mc import cells as C
from mc import sgr
from mc import repeat
from mc.runner import Acc, Report

LEVEL = "model_checking"

KINDS = ("fg", "bg") + C.STYLE_NAMES


def apply_model(base_cells, spec):
    out = []
    for c, a in base_cells:
        d = dict(a)
        d.update(spec)
        out.append((c, C.norm_atts(d)))
    return out


def spellings(kind, value):
    """[(label, function(base) -> FmtStr)] for one attribute; value: colour name or bool."""
    import curtsies.fmtfuncs as ff
    from curtsies.formatstring import fmtstr

    def cw(base, **kw):
        f = base if not isinstance(base, str) else fmtstr(base)
        return f.copy_with_new_atts(**kw)

    if kind == "fg":
        n = C.FG[value]
        return [
            ("positional", lambda b: fmtstr(b, value)),
            ("fg=name", lambda b: fmtstr(b, fg=value)),
            ("fg=number", lambda b: fmtstr(b, fg=n)),
            ("style=", lambda b: fmtstr(b, style=value)),
            ("fmtfunc", lambda b: getattr(ff, value)(b)),
            ("copy_with_new_atts", lambda b: cw(b, fg=n)),
        ]
    if kind == "bg":
        n = C.BG[value]
        return [
            ("positional", lambda b: fmtstr(b, "on_" + value)),
            ("bg=name", lambda b: fmtstr(b, bg=value)),
            ("bg=number", lambda b: fmtstr(b, bg=n)),
            ("style=", lambda b: fmtstr(b, style="on_" + value)),
            ("fmtfunc", lambda b: getattr(ff, "on_" + value)(b)),
            ("copy_with_new_atts", lambda b: cw(b, bg=n)),
        ]
    if value:
        return [
            ("positional", lambda b: fmtstr(b, kind)),
            ("kw", lambda b: fmtstr(b, **{kind: True})),
            ("style=", lambda b: fmtstr(b, style=kind)),
            ("fmtfunc", lambda b: getattr(ff, kind)(b)),
            ("copy_with_new_atts", lambda b: cw(b, **{kind: True})),
        ]
    return [
        ("kw", lambda b: fmtstr(b, **{kind: False})),
        ("copy_with_new_atts", lambda b: cw(b, **{kind: False})),
    ]


def model_value(kind, value):
    if kind == "fg":
        return C.FG[value]
    if kind == "bg":
        return C.BG[value]
    return value


def bases():
    # plain text, and plain str that carries SGR sequences (the str() of a FmtStr, coloured program output)
    out = [("str", "x"), ("str", "xy\n"), ("str", ""), ("ansi", "\x1b[31mER\x1b[39m: d"), ("ansi", "\x1b[1ma\x1b[0mb"), ("ansi", "p\x1b[44m\x1b[4mq\x1b[0m\x1b[49mr")]
    out += [("fmt", s) for s in C.layouts(2, 2)]
    return out


def make_base(b, warm=False):
    """warm: render / measure the base first, so that every memo of the operand is filled before formatting is applied."""
    if b[0] in ("str", "ansi"):
        return b[1]
    f = C.build(b[1])
    if warm:
        str(f), len(f), f.s
        try:
            f.width
        except ValueError:
            pass
    return f


def displayed(r):
    return sgr.interpret(str(r))[0]


def show_base(b):
    return b[1] if b[0] in ("str", "ansi") else C.show_spec(b[1])


def base_cells(b, base):
    """Cells of a base: for a str that carries SGR sequences, what a terminal displays (independent interpreter)."""
    if b[0] == "ansi":
        return sgr.interpret(b[1])[0]
    return C.cells(base)


ALL_ATTS = [("fg", c) for c in C.COLORS] + [("bg", c) for c in C.COLORS] + [(s, v) for s in C.STYLE_NAMES for v in (True, False)]


def shard_single(args):
    tier, seed, idx = args
    acc = Acc(seed=seed)
    bs = bases()
    for bi, warm in itertools.product(range(idx, len(bs), 16), (False, True)):
        b = bs[bi]
        if warm and b[0] in ("str", "ansi"):
            continue
        base = make_base(b, warm)
        bc = base_cells(b, base)
        for kind, value in ALL_ATTS:
            want = apply_model(bc, {kind: model_value(kind, value)})
            ref_str = None
            for label, fn in spellings(kind, value):
                case = {"base": show_base(b), "att": [kind, value], "spelling": label, "base_rendered_first": warm}
                acc.case(bool(bc), key=("1", bi, kind, value, label, warm), sample=case)
                acc.transitions += 1
                try:
                    r = fn(base)
                    got = C.cells(r)
                    s = str(r)
                except Exception as ex:  # noqa
                    acc.failure("C14:apply_raises:" + type(ex).__name__, case, repr(ex))
                    continue
                acc.state(hash(s))
                if got != want:
                    acc.failure("C14:apply_result", case, "got %r expected %r" % (got, want))
                elif displayed(r) != want:
                    acc.failure("C14:apply_display", case, "terminal string %r shows %r, expected %r" % (s, displayed(r), want))
                if ref_str is None:
                    ref_str = s
                elif s != ref_str:
                    acc.failure("C14:spellings_differ", case, "%r vs %r" % (s, ref_str))
            if not isinstance(base, str) and C.cells(base) != bc:
                acc.failure("C14:base_changed", {"base": show_base(b)}, "")
    return acc.export()


VALS = {"fg": ("red", "gray"), "bg": ("blue", "black")}


def kind_values(kind):
    return VALS.get(kind, (True, False))


def shard_multi(args):
    tier, seed, idx = args
    from curtsies.formatstring import fmtstr

    acc = Acc(seed=seed)
    bs = bases()
    if tier != "thorough":
        bs = bs[:6] + bs[6::3]
    combos = list(itertools.combinations(KINDS, 2)) + list(itertools.combinations(KINDS, 3))
    for ci in range(idx, len(combos), 16):
        kinds = combos[ci]
        if len(kinds) == 3 and tier != "thorough":
            use_bases = bs[:6] + bs[6::5]
        else:
            use_bases = bs
        for values in itertools.product(*[kind_values(k) for k in kinds]):
            spec = {k: model_value(k, v) for k, v in zip(kinds, values)}
            # spelling choices per attribute: 0 = positional where possible (True styles / colours), 1 = keyword
            for spell in itertools.product((0, 1), repeat=len(kinds)):
                pos = []
                kw = {}
                for k, v, sp in zip(kinds, values, spell):
                    if sp == 0 and v is not False:
                        pos.append(v if k == "fg" else ("on_" + v if k == "bg" else k))
                    else:
                        kw[k] = v
                for b in use_bases:
                    warm = (len(pos) + len(str(b))) % 2 == 1
                    base = make_base(b, warm)
                    bc = base_cells(b, base)
                    want = apply_model(bc, spec)
                    case = {"base": show_base(b), "atts": [list(kinds), list(values)], "positional": pos, "kw": kw, "how": "one call", "base_rendered_first": warm}
                    acc.case(bool(bc), key=("m", b, kinds, values, spell), sample=case)
                    acc.transitions += 1
                    try:
                        r = fmtstr(base, *pos, **kw)
                        got = C.cells(r)
                    except Exception as ex:  # noqa
                        acc.failure("C14:apply_raises:" + type(ex).__name__, case, repr(ex))
                        continue
                    acc.state(hash(tuple(got)))
                    if got != want:
                        acc.failure("C14:apply_result", case, "got %r expected %r" % (got, want))
                    elif displayed(r) != want:
                        acc.failure("C14:apply_display", case, "terminal string shows %r, expected %r" % (displayed(r), want))
            # nested, in every order (keyword spelling)
            for order in itertools.permutations(range(len(kinds))):
                for b in use_bases:
                    base = make_base(b)
                    bc = base_cells(b, base)
                    want = apply_model(bc, spec)
                    case = {"base": show_base(b), "atts": [list(kinds), list(values)], "how": "nested", "order": list(order)}
                    acc.case(bool(bc), key=("n", b, kinds, values, order), sample=case)
                    acc.transitions += 1
                    try:
                        r = base
                        for o in order:
                            r = fmtstr(r, **{kinds[o]: values[o]})
                            if order[0] % 2 == 0:
                                str(r)  # render the intermediate value in half of the orders
                        got = C.cells(r)
                    except Exception as ex:  # noqa
                        acc.failure("C14:apply_raises:" + type(ex).__name__, case, repr(ex))
                        continue
                    if got != want:
                        acc.failure("C14:nested_result", case, "got %r expected %r" % (got, want))
                    elif displayed(r) != want:
                        acc.failure("C14:nested_display", case, "terminal string shows %r, expected %r" % (displayed(r), want))
            # same kind twice: the later value wins
            k0 = kinds[0]
            for v1, v2 in itertools.permutations(kind_values(k0), 2):
                for b in use_bases[:8]:
                    base = make_base(b)
                    bc = base_cells(b, base)
                    want = apply_model(bc, {k0: model_value(k0, v2)})
                    case = {"base": show_base(b), "att": k0, "first": v1, "then": v2, "how": "override"}
                    acc.case(bool(bc), key=("o", b, k0, v1, v2, kinds), sample=case)
                    acc.transitions += 1
                    got = C.cells(fmtstr(fmtstr(base, **{k0: v1}), **{k0: v2}))
                    if got != want:
                        acc.failure("C14:override_result", case, "got %r expected %r" % (got, want))
    return acc.export()


RICH = (("fg", 31), ("bg", 44), ("bold", True), ("underline", True), ("invert", False))


def shard_remove(args):
    tier, seed, idx = args
    acc = Acc(seed=seed)
    specs = list(C.layouts(2, 2, palette=((), (("fg", 31),), RICH, (("bg", 41), ("bold", True))))) + C.huge_specs()[:4] + C.exotic_specs()[:15]
    names_pool = [()] + [(k,) for k in KINDS] + list(itertools.combinations(KINDS, 2))
    for si in range(idx, len(specs), 16):
        spec = specs[si]
        f = C.build(spec)
        fc = C.cells(f)
        snap = C.snapshot(f)  # renders f: removal below works on an operand whose memos are filled
        cold = C.build(spec)
        for names in names_pool:
            case = {"f": C.show_spec(spec), "remove": list(names)}
            acc.case(bool(fc) and bool(names), key=("r", spec, names), sample=case)
            acc.transitions += 1
            want = [(c, tuple(p for p in a if p[0] not in names)) for c, a in fc]
            try:
                r = f.new_with_atts_removed(*names)
                got = C.cells(r)
                got_cold = C.cells(cold.new_with_atts_removed(*names))
            except Exception as ex:  # noqa
                acc.failure("C14:remove_raises:" + type(ex).__name__, case, repr(ex))
                continue
            if got != want or got_cold != want:
                acc.failure("C14:remove_result", case, "got %r expected %r" % (got, want))
            elif displayed(r) != want:
                acc.failure("C14:remove_display", case, "terminal string shows %r, expected %r" % (displayed(r), want))
        # shared_atts: only values every character has
        if len(spec) >= 1:
            case = {"f": C.show_spec(spec), "op": "shared_atts"}
            acc.case(len(spec) > 1, key=("sh", spec), sample=case)
            acc.transitions += 1
            try:
                sh = f.shared_atts
            except Exception as ex:  # noqa
                acc.failure("C14:shared_atts_raises:" + type(ex).__name__, case, repr(ex))
                sh = {}
            # the returned mapping is the caller's: changing it must not change what the value reports afterwards
            try:
                before_items = sorted(sh.items())
                sh["bold"] = True
                sh["fg"] = 35
                sh.pop("bg", None)
                again = f.shared_atts
                if sorted(again.items()) != before_items:
                    acc.failure("C14:shared_atts_result_is_shared_state", case, "after the caller edited the returned dict shared_atts reports %r, before %r" % (sorted(again.items()), before_items))
                sh = dict(before_items)
            except Exception as ex:  # noqa
                acc.failure("C14:shared_atts_raises:" + type(ex).__name__, case, repr(ex))
            for k, v in sh.items():
                if v is False:
                    continue
                for c, a in fc:
                    if dict(a).get(k) != (True if k in C.STYLE_CODES else v):
                        acc.failure("C14:shared_atts_not_shared", case, "reports %r=%r but %r has %r" % (k, v, c, a))
                        break
        # copy_with_new_str on uniformly formatted values
        nonempty = [a for t, a in spec if t]
        uniform = (len(set(nonempty)) == 1) if nonempty else (len(spec) >= 1 and len({a for _, a in spec}) == 1)
        if uniform:
            the_atts = nonempty[0] if nonempty else spec[0][1]
            for new in ("", "Q", "QR\n", "\x1b[31mx", "a\x1b[0mb\x1b[", "\x1b[1;32mhi\x1b[m", "p\x9b1mq"):  # escape sequences in the new text are text
                case = {"f": C.show_spec(spec), "op": "copy_with_new_str", "new": new}
                acc.case(bool(new), key=("cs", spec, new), sample=case)
                acc.transitions += 1
                a = C.norm_atts(dict(the_atts))
                try:
                    got = C.cells(f.copy_with_new_str(new))
                except Exception as ex:  # noqa
                    acc.failure("C14:copy_with_new_str_raises:" + type(ex).__name__, case, repr(ex))
                    continue
                if got != [(c, a) for c in new]:
                    acc.failure("C14:copy_with_new_str_result", case, "got %r" % (got,))
        if C.snapshot(f) != snap:
            acc.failure("C14:base_changed", {"f": C.show_spec(spec)}, "")
    return acc.export()


def shard_helpers_with_keywords(args):
    """fmtfuncs helpers called with an extra keyword, interleaved with bare calls of the same helper: the result of a call must not
    depend on earlier calls (module-level caches), and equals the single-call spelling."""
    tier, seed, idx = args
    import curtsies.fmtfuncs as ff
    from curtsies.formatstring import fmtstr

    acc = Acc(seed=seed)
    helpers = [("fg", c) for c in C.COLORS] + [("bg", c) for c in C.COLORS] + [(st, True) for st in C.STYLE_NAMES]
    extras = [{"bold": True}, {"underline": True}, {"bg": "cyan"}, {"fg": "yellow"}, {"invert": False}, {"bold": True, "bg": 41}]
    bases = ["x", fmtstr("yz", "green"), fmtstr("p", "blue", "italic") + fmtstr("q")]
    for hi in range(idx, len(helpers), 4):
        kind, value = helpers[hi]
        name = value if kind == "fg" else ("on_" + value if kind == "bg" else kind)
        fn = getattr(ff, name)
        own = {kind: model_value(kind, value)}
        for rounds in range(2):
            for extra in extras:
                if kind in extra:
                    continue
                for base in bases:
                    bc = C.cells(base)
                    for which in ("with_keyword", "bare"):
                        spec = dict(own)
                        kw = {}
                        if which == "with_keyword":
                            kw = dict(extra)
                            spec.update({k: (model_value(k, v) if k in ("fg", "bg") and isinstance(v, str) else v) for k, v in extra.items()})
                        want = apply_model(bc, spec)
                        case = {"helper": name, "keywords": kw, "base": repr(base), "round": rounds}
                        acc.case(True, key=("hk", name, tuple(sorted(kw.items())), repr(base), rounds, which), sample=case)
                        acc.transitions += 1
                        try:
                            r = fn(base, **kw)
                            got = C.cells(r)
                        except Exception as ex:  # noqa
                            acc.failure("C14:apply_raises:" + type(ex).__name__, case, repr(ex))
                            continue
                        if got != want:
                            acc.failure("C14:helper_result_depends_on_earlier_calls" if which == "bare" else "C14:apply_result", case, "got %r expected %r" % (got, want))
                        elif displayed(r) != want:
                            acc.failure("C14:apply_display", case, "shows %r expected %r" % (displayed(r), want))
    return acc.export()


def invalid_catalogue():
    """(label, args, kwargs) - every one must raise ValueError from fmtstr('x', *args, **kwargs)."""
    cat = [
        ("unknown positional", ("reddish",), {}),
        ("unknown positional on_", ("on_",), {}),
        ("unknown positional on_reddish", ("on_reddish",), {}),
        ("empty positional", ("",), {}),
        ("trailing space", ("bold ",), {}),
        ("unknown keyword colour=", (), {"colour": "red"}),
        ("unknown keyword foo=", (), {"foo": True}),
        ("unknown keyword FG=", (), {"FG": "red"}),
        ("two foregrounds positional", ("red", "blue"), {}),
        ("two foregrounds positional+kw", ("red",), {"fg": "blue"}),
        ("two foregrounds kw+style", (), {"fg": "red", "style": "blue"}),
        ("two foregrounds positional+number", ("red",), {"fg": 34}),
        ("two backgrounds positional", ("on_red", "on_blue"), {}),
        ("two backgrounds positional+kw", ("on_red",), {"bg": "blue"}),
        ("two backgrounds kw+style", (), {"bg": "red", "style": "on_blue"}),
        ("fg number in bg range", (), {"fg": 44}),
        ("fg number 38", (), {"fg": 38}),
        ("fg number 29", (), {"fg": 29}),
        ("fg number 0", (), {"fg": 0}),
        ("fg number 39", (), {"fg": 39}),
        ("bg number in fg range", (), {"bg": 31}),
        ("bg number 48", (), {"bg": 48}),
        ("bg number 49", (), {"bg": 49}),
        ("fg given an on_ name", (), {"fg": "on_red"}),
        ("bg given an on_ name", (), {"bg": "on_red"}),
        ("fg given a style name", (), {"fg": "bold"}),
        ("fg unknown colour", (), {"fg": "nope"}),
        ("bg unknown colour", (), {"bg": "nope"}),
        ("fg=None", (), {"fg": None}),
        ("non-string positional int", (31,), {}),
        ("non-string positional None", (None,), {}),
        ("non-string positional bool", (True,), {}),
        ("non-string positional tuple", (("red",),), {}),
        ("non-string positional bytes", (b"red",), {}),
        ("non-string style=", (), {"style": 31}),
        ("style= unknown", (), {"style": "reddish"}),
        ("fg wrong-case keyword", (), {"fg": "RED"}),
        ("positional colour + fg=None", ("red",), {"fg": None}),
        ("positional colour + fg=0", ("red",), {"fg": 0}),
        ("positional colour + fg=False", ("red",), {"fg": False}),
        ("positional colour + fg=''", ("red",), {"fg": ""}),
        ("positional background + bg=None", ("on_red",), {"bg": None}),
        ("style= colour + fg=0", (), {"style": "red", "fg": 0}),
        ("bg=''", (), {"bg": ""}),
        ("fg=False", (), {"fg": False}),
    ]
    return cat


def invalid_helper_catalogue():
    """(label, helper name, args, kwargs): contradictory specifications given through the fmtfuncs helpers."""
    return [
        ("helper colour + fg keyword", "red", (), {"fg": "blue"}),
        ("helper colour + fg number", "red", (), {"fg": 34}),
        ("helper colour + positional colour", "red", ("blue",), {}),
        ("helper background + bg keyword", "on_gray", (), {"bg": 42}),
        ("helper background + bg name", "on_blue", (), {"bg": "red"}),
        ("helper background + positional background", "on_blue", ("on_red",), {}),
        ("helper + unknown keyword", "bold", (), {"colour": "red"}),
        ("helper + unknown positional", "underline", ("reddish",), {}),
        ("helper colour + fg=None", "red", (), {"fg": None}),
        ("helper colour + fg=0", "blue", (), {"fg": 0}),
        ("helper background + bg=False", "on_green", (), {"bg": False}),
    ]


def wrong_case_catalogue():
    """Wrong-case names must either work (give the lower-case meaning) or raise ValueError."""
    return [
        ("RED", {"fg": 31}), ("Red", {"fg": 31}), ("On_Blue", {"bg": 44}), ("ON_BLUE", {"bg": 44}), ("on_Blue", {"bg": 44}),
        ("BOLD", {"bold": True}), ("Underline", {"underline": True}),
    ]


def check_invalid(acc):
    from curtsies.formatstring import fmtstr

    for label, args, kw in invalid_catalogue():
        for base in ("x", fmtstr("x", "blue")):
            case = {"invalid": label, "args": repr(args), "kw": repr(kw), "base": repr(base)}
            acc.case(True, key=("inv", label, isinstance(base, str)), sample=case)
            acc.transitions += 1
            try:
                r = fmtstr(base, *args, **dict(kw))
            except ValueError:
                acc.outcome("ValueError")
                continue
            except Exception as ex:  # noqa
                acc.failure("C14:invalid_spec_raises_other:" + type(ex).__name__, case, repr(ex))
                continue
            acc.failure("C14:invalid_spec_accepted", case, "returned %r" % (r,))
    import curtsies.fmtfuncs as ff

    for label, helper, args, kw in invalid_helper_catalogue():
        case = {"invalid": label, "helper": helper, "args": repr(args), "kw": repr(kw)}
        acc.case(True, key=("invh", label), sample=case)
        acc.transitions += 1
        try:
            r = getattr(ff, helper)("x", *args, **dict(kw))
        except ValueError:
            acc.outcome("ValueError")
            continue
        except Exception as ex:  # noqa
            acc.failure("C14:invalid_spec_raises_other:" + type(ex).__name__, case, repr(ex))
            continue
        acc.failure("C14:invalid_spec_accepted", case, "returned %r" % (r,))
    for name, meaning in wrong_case_catalogue():
        case = {"invalid": "wrong case", "args": repr((name,))}
        acc.case(True, key=("wc", name), sample=case)
        acc.transitions += 1
        try:
            r = fmtstr("x", name)
        except ValueError:
            acc.outcome("ValueError")
            continue
        except Exception as ex:  # noqa
            acc.failure("C14:wrong_case_raises_other:" + type(ex).__name__, case, repr(ex))
            continue
        if C.cells(r) != [("x", C.norm_atts(meaning))]:
            acc.failure("C14:wrong_case_result", case, "got %r" % (C.cells(r),))
        acc.outcome("accepted")


def check_twin_overrides(acc):
    """An attribute that is already set is set again to a value that compares EQUAL to the old one but is a different object kind
    (False / 0, True / 1, 31 / 31.0): the result must carry the NEW value, through every way of applying formatting."""
    from curtsies.formatstring import fmtstr

    twins = [("bold", False, 0), ("bold", 0, False), ("bold", True, 1), ("underline", 1, True), ("fg", 31, 31.0), ("fg", 31.0, 31), ("bg", 44, 44.0), ("invert", False, 0), ("dark", 0, False)]
    for name, old, new in twins:
        for text_spec in ((("ab", ((name, old),)),), (("a", ((name, old), ("italic", True))), ("", ()), ("b", ((name, old),)))):
            ways = [
                ("copy_with_new_atts", lambda f: f.copy_with_new_atts(**{name: new})), ("fmtstr(f, **kw)", lambda f: fmtstr(f, **{name: new})),
                ("copy_with_new_atts twice", lambda f: f.copy_with_new_atts(**{name: old}).copy_with_new_atts(**{name: new})),
                ("fmtstr(fmtstr(f, **old), **new)", lambda f: fmtstr(fmtstr(f, **{name: old}), **{name: new})),
            ]
            for label, fn in ways:
                f = C.build(text_spec)
                case = {"f": C.show_spec(text_spec), "attribute": name, "old_value": repr(old), "new_value": repr(new), "applied_by": label}
                acc.case(True, key=("twinover", name, repr(old), repr(new), len(text_spec), label), sample=case)
                acc.transitions += 1
                try:
                    r = fn(f)
                except Exception as ex:  # noqa
                    acc.failure("C14:apply_raises:" + type(ex).__name__, case, repr(ex))
                    continue
                for ch in r.chunks:
                    if not ch.s:
                        continue
                    got = ch.atts.get(name, "<absent>")
                    ok = (repr(got) == repr(new)) or (new is False and got == "<absent>")
                    if not ok:
                        acc.failure("C14:apply_result", case, "run %r carries %s=%r, the value applied last is %r" % (ch.s, name, got, new))
                        break


# ---- which spelling of a name the process sees first ---------------------------------------------------------------------------
NAME_STEMS = ("bold", "dark", "italic", "underline", "blink", "invert", "red", "blue", "gray", "on_blue", "on_red", "nocolor", "on_nocolor")


def name_calls():
    """(label, positional names, keywords): every stem in four spellings, alone; then pairs in one call and through style= / the helpers."""
    out = []
    for stem in NAME_STEMS:
        for sp in (stem, stem.capitalize(), stem.upper(), stem[:3] + stem[3:].capitalize()):
            if not any(sp == o[1][0] for o in out if o[1]):
                out.append(("fmtstr(x, %r)" % sp, (sp,), ()))
    for a, b in (("bold", "RED"), ("Bold", "red"), ("on_Blue", "underline"), ("On_blue", "UNDERLINE"), ("blink", "invert"), ("Blink", "Invert")):
        out.append(("fmtstr(x, %r, %r)" % (a, b), (a, b), ()))
    for st in ("bold", "Bold", "underline", "Underline", "BLINK", "blink"):
        out.append(("fmtstr(x, style=%r)" % st, (), (("style", st),)))
    for k, v in (("fg", "red"), ("fg", "Red"), ("bg", "blue"), ("bg", "BLUE"), ("Bold", True), ("bold", True)):
        out.append(("fmtstr(x, %s=%r)" % (k, v), (), ((k, v),)))
    return out


def names_in_order(order):
    """Runs name_calls() in the given order in this (fresh) process; returns {label: outcome} with outcome = cells of the result, or
    the name of the exception."""
    from curtsies.formatstring import fmtstr
    import curtsies.fmtfuncs as ff

    calls = name_calls()
    idx = list(range(len(calls)))
    if order == "reversed":
        idx.reverse()
    elif order == "rejected_spellings_first":
        idx.sort(key=lambda i: (all(a == a.lower() for a in calls[i][1]) and all(str(v) == str(v).lower() and k == k.lower() for k, v in calls[i][2]), i))
    elif order == "helpers_first":
        for st in ("bold", "underline", "blink", "red", "on_blue"):
            getattr(ff, st)("x")
    res = {}
    for i in idx:
        label, args, kw = calls[i]
        try:
            r = fmtstr("x", *args, **dict(kw))
            res[label] = [[c, [list(x) for x in a]] for c, a in C.cells(r)] + [str(r)]
        except Exception as ex:  # noqa
            res[label] = type(ex).__name__
    for st in ("bold", "underline", "blink", "red", "on_blue", "invert"):
        try:
            r = getattr(ff, st)("x")
            res["fmtfuncs.%s(x)" % st] = [[c, [list(x) for x in a]] for c, a in C.cells(r)] + [str(r)]
        except Exception as ex:  # noqa
            res["fmtfuncs.%s(x)" % st] = type(ex).__name__
    return res


NAME_ORDERS = ("as_listed", "reversed", "rejected_spellings_first", "helpers_first")


def check_name_orders(acc):
    """A name table filled on first use must not let the first spelling (or a rejected call) decide what later calls do: the same
    calls, in four orders, each order in an interpreter of its own - every call must have the same outcome in all of them, and the
    lower-case spellings must mean what the model says."""
    from mc import fresh

    results = {o: fresh.in_fresh_process(names_in_order, o) for o in NAME_ORDERS}
    base = results[NAME_ORDERS[0]]
    for label in sorted(base):
        for o in NAME_ORDERS[1:]:
            case = {"call": label, "orders": [NAME_ORDERS[0], o], "each order": "in a newly started interpreter"}
            acc.case(True, key=("nameorder", label, o), sample=case)
            acc.transitions += 1
            if results[o].get(label) != base[label]:
                acc.failure("C14:outcome_depends_on_which_spelling_the_process_saw_first", case, "%r as listed, %r in order %s" % (base[label], results[o].get(label), o))
    want = {"bold": {"bold": True}, "underline": {"underline": True}, "blink": {"blink": True}, "invert": {"invert": True}, "red": {"fg": 31}, "on_blue": {"bg": 44}}
    for o in NAME_ORDERS:
        for st, atts in want.items():
            for label in ("fmtstr(x, %r)" % st, "fmtfuncs.%s(x)" % st):
                got = results[o].get(label)
                exp = [["x", [list(x) for x in C.norm_atts(atts)]]]
                if not isinstance(got, list) or got[:-1] != exp:
                    acc.failure("C14:apply_result", {"call": label, "order": o, "each order": "in a newly started interpreter"}, "got %r expected %r" % (got, exp))


def run(ctx):
    rep = Report()
    acc_t = Acc(seed=ctx.seed)
    check_twin_overrides(acc_t)
    rep.merge(acc_t, "twin_value_overrides")
    acc_n = Acc(seed=ctx.seed)
    check_name_orders(acc_n)
    rep.merge(acc_n, "spelling_seen_first_in_the_process")
    repeat.run_into(ctx, rep, "C14")
    for d in ctx.pmap(shard_single, [(ctx.tier, ctx.seed, i) for i in range(16)]):
        rep.merge(d, "single_attribute_all_spellings")
    for d in ctx.pmap(shard_multi, [(ctx.tier, ctx.seed, i) for i in range(16)]):
        rep.merge(d, "pairs_and_triples")
    for d in ctx.pmap(shard_remove, [(ctx.tier, ctx.seed, i) for i in range(16)]):
        rep.merge(d, "remove_shared_copy")
    for d in ctx.pmap(shard_helpers_with_keywords, [(ctx.tier, ctx.seed, i) for i in range(4)]):
        rep.merge(d, "helpers_with_keywords")
    acc = Acc(seed=ctx.seed)
    check_invalid(acc)
    rep.merge(acc, "invalid_catalogue")
    rep.validated = rep.n
    rep.rule = (
        "bases: 3 str + U_layout(2,2,P3); every one of 28 attribute values in every spelling; every pair and triple of distinct kinds "
        "(2 values each) in one call (2^n positional/keyword spellings) and nested in every order, plus same-kind override; removal of every "
        "subset of <=2 names over a 4-palette universe; shared_atts; copy_with_new_str on uniform values; %d invalid + %d wrong-case specs; "
        "%d name calls (13 stems x 4 spellings, pairs, style=, keywords, helpers) in 4 orders, each order in its own interpreter. "
        "Distinct by construction; non-trivial = base has characters." % (len(invalid_catalogue()), len(wrong_case_catalogue()), len(name_calls()) + 6)
    )
    rep.assumptions = ["False == absent", "invalid specifications checked through fmtstr() only", "style values other than True/False not in the catalogue"]
    return rep
