#!/bin/sh
# Re-runs every kept seeded change against the current checks (quick tier) and prints one line per seed.
cd /verif || exit 2
for d in seeded/*/; do
  id=$(basename "$d"); prop=$(echo "$id" | cut -d- -f1)
  tools/seedcheck.py "$d" "$id" "$prop" > /tmp/reseed_$id.txt 2>&1
  head -1 /tmp/reseed_$id.txt | cut -c1-200
done
