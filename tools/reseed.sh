#!/bin/sh
# Re-runs every kept seeded change against the current checks (quick tier) and prints two lines per seed (the second says
# whether THIS run caught it).  LANES seeds at a time (default 3), each check with VERIF_JOBS worker processes (default 5).
cd /verif || exit 2
LANES=${LANES:-3}
export VERIF_JOBS=${VERIF_JOBS:-5}
ls -d seeded/*/ | xargs -P "$LANES" -I{} sh -c 'id=$(basename {}); prop=$(echo "$id" | cut -d- -f1); tools/seedcheck.py {} "$id" "$prop" > /tmp/reseed_$id.txt 2>&1; head -2 /tmp/reseed_$id.txt | cut -c1-160 | tr "\n" " "; echo'
