#!/bin/sh
# Every check must stay silent (exit 0, no VIOLATION line) on the unchanged tree for several VERIF_SEED values, from fresh processes,
# and must explore the same space for every seed (space_digest).
cd /verif || exit 2
rc=0
for p in $(jq -r '.checks[].property_id' MANIFEST.json); do
  digests=""
  for seed in ${SILENCE_SEEDS:-1 2 7}; do
    out=$(VERIF_SEED=$seed ./check $p --tier quick 2>&1); code=$?
    if [ $code -ne 0 ] || echo "$out" | grep -q '^VIOLATION'; then echo "NOT SILENT: $p seed=$seed exit=$code"; echo "$out" | tail -3; rc=1; fi
    digests="$digests $(jq -r '.coverage.space_digest' evidence/$p.json)"
  done
  set -- $digests
  if [ -n "$(printf "%s\n" $digests | sort -u | sed 1d)" ]; then echo "SPACE DIFFERS ACROSS SEEDS: $p $digests"; rc=1; else echo "ok $p $1"; fi
done
exit $rc
