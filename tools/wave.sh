#!/bin/sh
# tools/wave.sh <dir-prefix> <suffix> <PROP> [extra checks...]   e.g. tools/wave.sh /tmp/w2_ b C05
pre="$1"; suf="$2"; prop="$3"; shift 3
for d in ${pre}${prop}/SEED*; do
  [ -d "$d" ] || continue
  n=$(basename "$d" | sed 's/SEED//')
  sed -i 's|^\(\s*\)assert curtsies.__file__.startswith.*$|\1pass|' "$d/demo.py" 2>/dev/null
  /verif/tools/seedcheck.py "$d" "${prop}-${suf}${n}" "$prop" "$@" > /tmp/wave_out.txt 2>&1
  head -3 /tmp/wave_out.txt | cut -c1-420
done
