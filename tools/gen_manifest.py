#!/venv/bin/python
"""Regenerates /verif/MANIFEST.json from the table below and validates it against the schema.
A property is listed under `checks` once its module exists in mc/props and is marked built=True here;
everything else is listed under not_applicable with the reason "not built yet" (never silently dropped)."""
import json, os, subprocess, sys

VERIF = os.path.dirname(os.path.dirname(os.path.abspath(__file__)))

P = {}
def prop(pid, built, category, technique, text, note, design_ref, reason_if_unbuilt="check not built yet in this session (see DESIGN.md section 4 for the design)"):
    P[pid] = dict(built=built, category=category, technique=technique, text=text, note=note, design_ref=design_ref, reason=reason_if_unbuilt)

ENUM = "exhaustive bounded enumeration of inputs on the real code against a cell-list reference model"

T = {}
T["C01"] = ("Every value of a complete bounded universe (all 59 049 single-run attribute assignments incl. explicit False x texts with newline/tab/wide/accented characters; all 5 184 True-sets next to a sharp 24-palette in both orders with/without an empty run; all 24^3 triples) is built through the public API, and str(f) is run through an independent SGR interpreter (and pyte): characters, per-character attributes, final state, absence of non-SGR bytes. 0.42 M (quick) / 0.92 M (thorough) values.",
            "Trusted: mc/sgr.py as the terminal's SGR semantics (cross-checked with pyte on every printable-ASCII case); more than 3 runs follow by the per-run self-containedness that the check establishes (each run's string starts and ends in the default state).")
T["C05"] = ("Round trip str()/from_str over the C01 universe with newline/tab/bracket texts, plus every string of the grammar T S T [S T [S T]] with S over all 651 SGR tokens of <=2 supported parameters (3 tokens: <=1 parameter quick, 12-code subset with <=2 thorough); the parsed cells are compared with what the independent SGR interpreter displays. 2.0 M strings quick.",
            "Trusted: mc/sgr.py; False == absent; 8-bit CSI and unsupported codes are C17's subject.")
T["C06"] = ("Every int index and every slice with bounds in [-len-2, len+2]+None on every value of U_layout (820 quick / 22 621 thorough), every repeat count 0..3, every ordered pair of the 820-value universe for + (and str on either side), join of every list of <=3 items with 40+ separators; results compared with list indexing/slicing/concatenation on the cell model, IndexError parity with str, operands unchanged. 0.8 M / 8.8 M cases.",
            "Trusted: Python list semantics as reference; slice steps and n*f are outside (documented as unsupported).")
T["C09"] = ("Every splice/append over a complete bounded universe of run layouts (0..k runs, empty runs, zero-run value) x 7 replacement values x every range 0<=start<=end<=len+2 (and end omitted) is executed on the real FmtStr.splice and compared with list slicing on the cell-list model; operand snapshots are compared before/after. Quick: k=3,L=2 (0.16 M cases); thorough: k=4,L=3 (8.9 M).",
            "Trusted: alpha (cells read from .chunks), tied to the displayed string by C01; Python list slicing as the reference; nothing beyond the bounds (run count > 4, run length > 3) is covered.")
T["C10"] = ("Every string over {narrow, double-width, combining} of length <=4 (5 thorough, + CJK) in every cut into <=3 runs with empty runs: width, width_at_offset for every offset, width_aware_slice for every 0<=a<=b<=width+2, against an independent column-expansion model. 1.6 M / 9.2 M cases.",
            "Trusted: the column widths 1/2/0 of the three alphabet characters (the width clause itself checks cwcwidth agrees). Zero-width characters are only required not to be invented and to stay with a wholly included base.")
T["C11"] = ("Every string over {narrow, double-width, combining} of length <=5 (6 thorough) in every cut into <=3 runs, columns 2..5 (7): line widths, no empty line, losslessness after removing the permitted paddings, and line-by-line agreement with a greedy reference wrap; columns<2 must raise ValueError. 0.8 M / 1.5 M wraps.",
            "Placement of zero-width characters at a break is free; zero-run value outside the quantifier.")
T["C14"] = ("Every attribute value (28) in every spelling (positional, keyword name, number, style=, fmtfuncs helper, copy_with_new_atts) on every base (str + U_layout(2,2,P3)); every pair/triple of distinct kinds in one call (all positional/keyword mixes) and nested in every order, same-kind override, removal of every subset of <=2 names, shared_atts, copy_with_new_str, and a catalogue of 37 invalid + 7 wrong-case specifications that must raise ValueError. 0.11 M / 0.68 M applications.",
            "False == absent; invalid specs checked through fmtstr() only.")
T["C15"] = ("Every text over {a,B,-,space,newline} of length <=3 (4 thorough) in every cut into <=3 runs (+ longer texts in 2 runs, + a \\r/unicode line-boundary family): split with 7 separators and 4 regexes, splitlines with/without keepends, ljust/rjust for every width with/without fill, 59 delegated method/argument combinations; text, non-text answers and exception types must equal str's, pieces keep per-character formatting, delegated results carry the shared formatting and nothing alien. 7.2 M / 51 M calls.",
            "split() without separator, maxsplit, encode/format are not checked; ljust/rjust without fill only 'same text, nothing alien' (existing tests pin the padding's formatting).")
T["C16"] = ("Every string over {a,b,space,tab,newline} of length <=4 (5) as str and in every cut into <=3 runs, longer strings in 2 runs, columns 1..4 (6): compared line by line with a greedy reference wrap on cells, incl. the joining space's formatting rule, no edge whitespace, no-word inputs. 1.5 M / 28 M wraps.",
            "len(), not display width; whitespace = str.isspace().")
T["C17"] = ("Every string of length <=5 (6) over an 11-symbol alphabet of ordinary characters, newline, ESC, 8-bit CSI, '[', digit, ';', final and intermediate bytes (177 k / 1.95 M strings) plus 55 real-world samples: fmtstr/from_str must not raise, plain text comes back verbatim, the result's text is s with deletions only inside escape extents (alignment DP), numeric CSI sequences are removed exactly.",
            "Escape extents per ECMA-48 (introducer + 0x20-0x3F bytes + one final byte); what happens inside an extent is not constrained.")
T["C19"] = ("All ordered pairs over 977 values (3 400 thorough) incl. same-text/different-format and same-display/different-run-boundary twins and bold=False variants: ==, !=, symmetry, hash agreement, dict lookups; each value against a pool of plain str (texts and terminal strings) in both operand orders; repr round trip through eval for every value with >=1 run and quote/backslash/newline texts x 24 attribute sets. 1.06 M / 17 M comparisons.",
            "No comparison with bytes.")
T["C02"] = ("Explicit-state BFS over the real FullscreenWindow and a reference xterm model: from an entered window over a marker screen, every array of the alphabet (all rows over {a, red a} of length 0..w+1 for sizes up to 2x1/1x2 (2x2 thorough), sharper alphabets - empty, full-width, full-width with different formatting, over-wide - up to 3x3 (4x4)) x cursor positions, resizes to every other size with two junk fillings, exit from every state; after every render every screen cell, the cursor, scrollback, buffer, cursor visibility and SGR state are compared. The search runs to a fixpoint (no new canonical state), so it covers histories of any length over the alphabet. 1.8 M transitions quick.",
            "Trusted: mc/term.py as xterm (pending wrap, BCE, DECSC, ?1049); blessed's terminfo sequences for TERM=xterm; states are deduplicated on a 64-bit hash of the full canonical state; resizes are taken only from a bounded set of source states.")
T["C03"] = ("Explicit-state exploration of the decoder's own decision tree on the real get_key: every state (byte string whose proper prefixes all returned None) x every next byte x full in {False,True} x 3 naming modes, complete for ascii, latin-1 and utf-8 lead bytes < 0xF0 (0xF8 thorough), class representatives above; oracles O1-O7 against the tables as data, an independent strict UTF-8 recogniser and pinned documented names. Plus streams through the real Input find_key: every table sequence + every byte, every pair of table sequences, table sequence next to multi-byte characters, every Unicode scalar value. 1.7 M states / 16 M get_key calls quick.",
            "Tables are reference data (a few documented names are pinned); the obsolete 5/6-byte lead subtrees are explored through boundary representatives of the 17 UTF-8 byte classes (soundness argument in DESIGN.md); one known finding.")
T["C04"] = ("Explicit-state BFS over assignment histories on the real FSArray against a reference grid: from every small shape (0..2 rows x 0..2 columns, 1x3; constructor formatting) every region assignment a[r0:r1,c0:c1]=block (rows of every length 0..w+1 and past the array edge, str/FmtStr/FSArray/mixed, ragged blocks, wrong row counts), a[r0:r1]=block, a[r,c]=..., depth 2 (3 thorough) with deduplication on the rows' run structure; success/error boundary, atomicity of failures, and every read form in every distinct state. 1.5 M assignments quick.",
            "An over-long row that only spills into blank space is unconstrained right of the region; any exception counts as 'an error'; negative indices and a[r]=v outside.")
T["C13"] = ("Stateless search over all straight-line programs of length 1-2 (3 thorough, reduced alphabet) over 45 operation instances of the public API with every choice of pool operands, each executed under every observation schedule (which memo views are filled before which step); at the end every value's views must equal the snapshot taken at its creation in the reference execution and the views of a never-observed copy rebuilt from fresh run objects; plus every in-place mutation attempt on every run's attribute dict. 0.83 M executions quick.",
            "Direct mutation of .chunks / Chunk internals is outside (not API).")
T["C20"] = ("The decoder decision tree of C03 with the three naming modes evaluated in lock-step at every state (same kind of outcome, bytes mode returns exactly the bytes), every curses-table key is a curtsies-table key, and all 136 valid configuration key names map (through keymap) to names collected as producible from the complete trees; unbound key -> ().",
            "R (producible names) is collected from the real decoder over the complete latin-1/utf-8 trees; upper-case C-A and 'M- ' are not checked.")
T["C07"] = ("Explicit-state search over the real CursorAwareWindow (entered for real: Cbreak on a pty, cursor query answered by the reference terminal's DSR through a scripted in_stream) and a reference xterm with scrollback: every initial screen (0..h+2 printed lines; cursor parked on every row over junk) x keep_last_line x hide_cursor, all render histories of depth 2-3 (3-4 thorough) over heights 0..h+2 x 4 row patterns x cursor on the first/last array cell, exit from every state; oracle: exact scroll count, history prefix intact, return value, rows below blank, top_usable_row, cursor cell, visibility, tty attributes after exit. 0.44 M transitions quick.",
            "Trusted: mc/term.py (LF scrolling into scrollback, DECSC/DECRC, CUP clamping). Rows no wider than the terminal; content differs per step so every history is its own state (no fixpoint claimed).")
T["C08"] = ("Stateless deviation-bounded exploration of the real Input under a virtual kernel (os/select/time/fcntl/signal/termios substituted as module attributes): 10 k scenarios (byte streams cut into bursts at every byte position incl. inside characters, thresholds None/2/8; every placement of 1-2 (selected 3) environment events - event / thread-safe / scheduled triggers with past, equal and future times, SIGINT, arrivals, unget_bytes - among 2-3 requests with timeouts 0/5.0/None; multi-kilobyte bursts straddling the 1 024-byte read) x every execution with <= 2 (3 thorough) deviations: an event delivered early at any kernel call of a request or inside a timed wait, a thread-safe callback's write deferred past its append. Oracle: reference queue model (exactly-once, per-source order, scheduled events not early and in time order, no None while something is deliverable, no None before the timeout, paste events, no exception, lost wake-ups, everything delivered after the drain). 0.15 M / 0.48 M executions.",
            "The virtual kernel is a model of the environment (CPython signal delivery, select argument order, GIL-atomic list.append); scheduling points are the library's kernel calls; three known findings share the split-character root cause.")
T["C18"] = ("(a) get_cursor_position on a constructed window with scripted streams: 157 preceding inputs (all sequences of <=2 pieces of keypresses, escape sequences and look-alike fragments) x 7-bit/8-bit CSI x 49 reported positions (1..12345) x trailing input x callback present/absent, and every placement of <=2 failing reads; (b) all depth-3 histories over renders, queries answered with any row, and queries with a nested call fired inside the k-th read and a re-query, from every starting top_usable_row: conservation identity, nested call returns 0, flags reset. 0.39 M calls quick.",
            "Complete look-alike reports preceding the real one are inherently ambiguous and filtered; blessed's own get_location path is outside.")
T["C12"] = ("Fault enumeration on a real pty with real termios/fcntl/signal and the process's fd table: 15 context kinds/options (Input x sigint_event x disable_terminal_start_stop, FullscreenWindow, CursorAwareWindow x hide_cursor x keep_last_line, Cbreak, Nonblocking, Termmode, Input nested in Input, Input inside FullscreenWindow) x 10 initial environments (tty attribute sets, O_NONBLOCK, previous SIGINT handler, previous wake-up fd) x object lifecycles (fresh / constructed while the environment was different / already used once) x bodies of <=2 operations x crash points: normal exit, an exception after every prefix, KeyboardInterrupt and a real synchronous SIGINT at every asynchronous point (sys.setprofile call/c_return events in curtsies frames), OSError from the k-th write/read/select; 50 enter/exit cycles; Input in a non-main thread. Before/after comparison of tty attributes, file status flags (also after every request), SIGINT handler, wake-up fd, open descriptors, cursor visibility, active buffer, main-screen content. 54 k executions quick.",
            "Crash points lie between __enter__ returning and __exit__ starting; asynchronous exceptions are injected only where CPython can raise them (not at arbitrary lines); one known finding (trigger pipe never closed).")
BUILT = set(T)
TECH = {
 "C02": "explicit-state BFS over render/resize histories, real window + reference terminal",
 "C03": "explicit-state exploration of the decoder's decision tree",
 "C04": "explicit-state BFS over assignment histories against a reference grid",
 "C07": "explicit-state BFS over render histories, real window + reference terminal with scrollback",
 "C08": "stateless deviation-bounded exploration of schedules under a virtual kernel",
 "C12": "exhaustive crash-point / fault enumeration on a real pty",
 "C13": "stateless search over straight-line programs with interleaved observations",
 "C18": "exhaustive enumeration + explicit-state BFS of cursor bookkeeping",
 "C20": "explicit-state exploration of the decoder's decision tree in all naming modes",
}
CAT = {"C12": "fault_enumeration"}
for i in range(1, 21):
    pid = "C%02d" % i
    text, note = T.get(pid, ("", ""))
    prop(pid, pid in BUILT, CAT.get(pid, "model_checking"), TECH.get(pid, ENUM), text, note, "4/" + pid)

def main():
    # allow overriding from a json side file so that the table above need not be edited for every change
    side = os.path.join(VERIF, "tools", "manifest_entries.json")
    if os.path.exists(side):
        for pid, ent in json.load(open(side)).items():
            P[pid].update(ent)
    checks, na = [], []
    for pid in sorted(P):
        e = P[pid]
        if e["built"] and os.path.exists(os.path.join(VERIF, "mc", "props", pid.lower() + ".py")):
            checks.append({
                "property_id": pid,
                "quick_cmd": "./check %s --tier quick" % pid,
                "thorough_cmd": "./check %s --tier thorough" % pid,
                "evidence_file": "/verif/evidence/%s.json" % pid,
                "replay_cmd_template": "./check %s --replay {path}" % pid,
                "engine": "mc",
                "level_claimed": {"category": e["category"], "text": e["text"], "design_ref": "DESIGN.md section " + e["design_ref"]},
                "level_note": e["note"],
                "technique": e["technique"],
            })
        else:
            na.append({"property_id": pid, "reason": e["reason"]})
    m = {
        "version": 1,
        "setup_cmd": "/venv/bin/python -c \"import blessed, pyte, cwcwidth, sys; sys.path.insert(0, '/repo'); import curtsies\" && chmod +x /verif/check",
        "hooks": {
            "guard": "CURTSIES_VERIF",
            "enable": "no source hooks exist: every seam is a module attribute substituted by the harness at run time (DESIGN.md section 2); ./check exports CURTSIES_VERIF=1 for uniformity",
            "baseline_off_cmd": "cd /repo && /venv/bin/python -m pytest -ra -q -p no:cacheprovider --timeout=900 --continue-on-collection-errors",
            "source_commits": [],
            "add_only": True,
        },
        "engines": [{
            "name": "mc", "path": "/verif/mc",
            "serves_properties": [c["property_id"] for c in checks],
            "kind_free_text": "hand-written explicit-state / exhaustive-enumeration / deviation-bounded explorers in Python that execute the real curtsies code on every explored case (no Python model checker is installed in this image)",
        }],
        "checks": checks,
        "not_applicable": na,
        "notes": "All checks run under /venv/bin/python against /repo's working tree (override with VERIF_REPO for scratch copies). known_findings.json lists genuine defects: status fixed (with the fix: commit) or known.",
    }
    out = os.path.join(VERIF, "MANIFEST.json")
    json.dump(m, open(out, "w"), indent=1)
    schema = json.load(open("/root/.vp/MANIFEST.schema.json"))
    code = "import json,jsonschema,sys; jsonschema.validate(json.load(open(%r)), json.load(open('/root/.vp/MANIFEST.schema.json'))); print('MANIFEST valid: %d checks, %d not_applicable')" % (out, len(checks), len(na))
    subprocess.check_call(["python3-vt", "-c", code])

if __name__ == "__main__":
    main()
