#!/venv/bin/python
"""Regenerates /verif/MANIFEST.json from the table below and validates it against the schema.
A property is listed under `checks` once its module exists in mc/props and is marked built=True here;
everything else is listed under not_applicable with the reason "not built yet" (never silently dropped)."""
import json, os, subprocess, sys

VERIF = os.path.dirname(os.path.dirname(os.path.abspath(__file__)))

P = {}
def prop(pid, built, category, technique, text, note, design_ref, reason_if_unbuilt="check not built yet in this session (see DESIGN.md section 4 for the design)"):
    P[pid] = dict(built=built, category=category, technique=technique, text=text, note=note, design_ref=design_ref, reason=reason_if_unbuilt)

ENUM = "exhaustive bounded enumeration of inputs on the real code against a cell-list reference model"

prop("C01", False, "model_checking", ENUM, "", "", "4/C01")
prop("C02", False, "model_checking", "explicit-state BFS over render/resize histories, real window + reference terminal", "", "", "4/C02")
prop("C03", False, "model_checking", "explicit-state exploration of the decoder's decision tree", "", "", "4/C03")
prop("C04", False, "model_checking", "explicit-state BFS over assignment histories against a reference grid", "", "", "4/C04")
prop("C05", False, "model_checking", ENUM, "", "", "4/C05")
prop("C06", False, "model_checking", ENUM, "", "", "4/C06")
prop("C07", False, "model_checking", "explicit-state BFS over render histories, real window + reference terminal with scrollback", "", "", "4/C07")
prop("C08", False, "model_checking", "stateless deviation-bounded exploration of schedules under a virtual kernel", "", "", "4/C08")
prop("C09", True, "model_checking", ENUM,
     "Every splice/append over a complete bounded universe of run layouts (0..k runs, empty runs, zero-run value) x 7 replacement "
     "values x every range 0<=start<=end<=len+2 (and end omitted) is executed on the real FmtStr.splice and compared with list "
     "slicing on the cell-list model; operand snapshots are compared before/after. Quick: k=3,L=2 (0.16 M cases); thorough: k=4,L=3 (8.9 M).",
     "Trusted: alpha (cells read from .chunks), tied to the displayed string by C01; Python list slicing as the reference; nothing beyond the bounds "
     "(run count > 4, run length > 3) is covered.", "4/C09")
prop("C10", False, "model_checking", ENUM, "", "", "4/C10")
prop("C11", False, "model_checking", ENUM, "", "", "4/C11")
prop("C12", False, "fault_enumeration", "exhaustive crash-point / fault enumeration on a real pty", "", "", "4/C12")
prop("C13", False, "model_checking", "stateless search over straight-line programs with interleaved observations", "", "", "4/C13")
prop("C14", False, "model_checking", ENUM, "", "", "4/C14")
prop("C15", False, "model_checking", ENUM, "", "", "4/C15")
prop("C16", False, "model_checking", ENUM, "", "", "4/C16")
prop("C17", False, "model_checking", ENUM, "", "", "4/C17")
prop("C18", False, "model_checking", "exhaustive enumeration + explicit-state BFS of cursor bookkeeping", "", "", "4/C18")
prop("C19", False, "model_checking", ENUM, "", "", "4/C19")
prop("C20", False, "model_checking", "explicit-state exploration of the decoder's decision tree in all naming modes", "", "", "4/C20")

def main():
    # allow overriding from a json side file so that the table above need not be edited for every change
    side = os.path.join(VERIF, "tools", "manifest_entries.json")
    if os.path.exists(side):
        for pid, ent in json.load(open(side)).items():
            P[pid].update(ent)
    checks, na = [], []
    for pid in sorted(P):
        e = P[pid]
        if e["built"] and os.path.exists(os.path.join(VERIF, "mc", "props", pid.lower() + ".py")):
            checks.append({
                "property_id": pid,
                "quick_cmd": "./check %s --tier quick" % pid,
                "thorough_cmd": "./check %s --tier thorough" % pid,
                "evidence_file": "/verif/evidence/%s.json" % pid,
                "replay_cmd_template": "./check %s --replay {path}" % pid,
                "engine": "mc",
                "level_claimed": {"category": e["category"], "text": e["text"], "design_ref": "DESIGN.md section " + e["design_ref"]},
                "level_note": e["note"],
                "technique": e["technique"],
            })
        else:
            na.append({"property_id": pid, "reason": e["reason"]})
    m = {
        "version": 1,
        "setup_cmd": "/venv/bin/python -c \"import blessed, pyte, cwcwidth, sys; sys.path.insert(0, '/repo'); import curtsies\" && chmod +x /verif/check",
        "hooks": {
            "guard": "CURTSIES_VERIF",
            "enable": "no source hooks exist: every seam is a module attribute substituted by the harness at run time (DESIGN.md section 2); ./check exports CURTSIES_VERIF=1 for uniformity",
            "baseline_off_cmd": "cd /repo && /venv/bin/python -m pytest -ra -q -p no:cacheprovider --timeout=900 --continue-on-collection-errors",
            "source_commits": [],
            "add_only": True,
        },
        "engines": [{
            "name": "mc", "path": "/verif/mc",
            "serves_properties": [c["property_id"] for c in checks],
            "kind_free_text": "hand-written explicit-state / exhaustive-enumeration / deviation-bounded explorers in Python that execute the real curtsies code on every explored case (no Python model checker is installed in this image)",
        }],
        "checks": checks,
        "not_applicable": na,
        "notes": "All checks run under /venv/bin/python against /repo's working tree (override with VERIF_REPO for scratch copies). known_findings.json lists genuine defects: status fixed (with the fix: commit) or known.",
    }
    out = os.path.join(VERIF, "MANIFEST.json")
    json.dump(m, open(out, "w"), indent=1)
    schema = json.load(open("/root/.vp/MANIFEST.schema.json"))
    code = "import json,jsonschema,sys; jsonschema.validate(json.load(open(%r)), json.load(open('/root/.vp/MANIFEST.schema.json'))); print('MANIFEST valid: %d checks, %d not_applicable')" % (out, len(checks), len(na))
    subprocess.check_call(["python3-vt", "-c", code])

if __name__ == "__main__":
    main()
