#!/venv/bin/python
"""Mutation helper: apply a textual change (or a patch file) to a scratch copy of /repo (outside /repo and /verif),
run the baseline tests there, run the named checks against it (VERIF_REPO), report, remove the copy.

  tools/mut.py --file curtsies/formatstring.py --old 'A' --new 'B' C09 C06
  tools/mut.py --patch /verif/seeded/x/patch.diff C09
Exit status 0 when the tests passed AND at least one named check reported a violation ("caught").
"""
import argparse, os, shutil, subprocess, sys, tempfile

ap = argparse.ArgumentParser()
ap.add_argument("--file"); ap.add_argument("--old"); ap.add_argument("--new"); ap.add_argument("--patch")
ap.add_argument("--count", type=int, default=1)
ap.add_argument("--tier", default="quick")
ap.add_argument("--keep-going", action="store_true")
ap.add_argument("--no-tests", action="store_true")
ap.add_argument("checks", nargs="+")
a = ap.parse_args()

d = tempfile.mkdtemp(prefix="vr_", dir="/tmp")
try:
    subprocess.check_call(["rsync", "-a", "--exclude", ".git", "--exclude", "__pycache__", "/repo/", d + "/"])
    if a.patch:
        subprocess.check_call(["patch", "-p1", "-s", "-d", d, "-i", os.path.abspath(a.patch)])
    else:
        p = os.path.join(d, a.file)
        s = open(p).read()
        if s.count(a.old) != a.count:
            print("MUT-ERROR: %r occurs %d times in %s (expected %d)" % (a.old, s.count(a.old), a.file, a.count)); sys.exit(3)
        open(p, "w").write(s.replace(a.old, a.new))
    tests_ok = True
    if not a.no_tests:
        r = subprocess.run(["/venv/bin/python", "-m", "pytest", "-q", "-p", "no:cacheprovider", "-x", "--timeout=900"], cwd=d, capture_output=True, text=True,
                           env=dict(os.environ, PYTHONDONTWRITEBYTECODE="1"))
        tail = r.stdout.strip().splitlines()[-1] if r.stdout.strip() else ""
        tests_ok = r.returncode == 0
        print("tests:", tail)
    caught = []
    for c in a.checks:
        r = subprocess.run(["/verif/check", c, "--tier", a.tier], capture_output=True, text=True, env=dict(os.environ, VERIF_REPO=d, VERIF_NO_EVIDENCE="1"))
        viol = [l for l in r.stdout.splitlines() if l.startswith("VIOLATION")]
        err = [l for l in r.stderr.splitlines() if l.startswith("[")][:3]
        print("%s: exit=%d %s" % (c, r.returncode, "; ".join(viol[:3])))
        for l in err: print("    ", l[:400])
        if r.returncode == 1 and viol: caught.append(c)
    print("RESULT tests_pass=%s caught_by=%s" % (tests_ok, caught))
    sys.exit(0 if (tests_ok and caught) else 1)
finally:
    shutil.rmtree(d, ignore_errors=True)
