#!/venv/bin/python
"""Confirm a seeded change and run checks against it.
  tools/seedcheck.py /tmp/wt_C19/SEED1 C19-1 C19 [more checks...]  [--tier thorough]
Steps (all on a scratch copy of /repo's working tree outside /repo and /verif, removed afterwards):
  1 patch applies; 2 baseline tests pass with it; 3 demo.py fails with it; 4 demo.py passes without it;
  5 each named check run with VERIF_REPO=<scratch>; result recorded in /verif/seeded/<id>/meta.json
"""
import argparse, json, os, shutil, subprocess, sys, tempfile, time

ap = argparse.ArgumentParser()
ap.add_argument("seeddir"); ap.add_argument("seed_id"); ap.add_argument("checks", nargs="+")
ap.add_argument("--tier", default="quick")
ap.add_argument("--needs", default="")
a = ap.parse_args()
prop = a.checks[0]
out = os.path.join("/verif/seeded", a.seed_id)
os.makedirs(out, exist_ok=True)
for f in ("patch.diff", "demo.py", "notes.md"):
    src = os.path.join(a.seeddir, f)
    if os.path.exists(src) and os.path.abspath(src) != os.path.abspath(os.path.join(out, f)):
        shutil.copy(src, os.path.join(out, f))
d = tempfile.mkdtemp(prefix="vs_", dir="/tmp")
meta = {"seed_id": a.seed_id, "breaks_property": prop, "needs_to_manifest": a.needs, "ran": []}
env = dict(os.environ, PYTHONDONTWRITEBYTECODE="1", TERM="xterm")
try:
    subprocess.check_call(["rsync", "-a", "--exclude", ".git", "--exclude", "__pycache__", "--exclude", "SEED*", "/repo/", d + "/"])
    r = subprocess.run(["patch", "-p1", "-s", "-d", d, "-i", os.path.join(out, "patch.diff")], capture_output=True, text=True)
    meta["patch_applies"] = r.returncode == 0
    if r.returncode != 0:
        print("PATCH FAILED", r.stdout, r.stderr)
    r = subprocess.run(["/venv/bin/python", "-m", "pytest", "-q", "-p", "no:cacheprovider", "--timeout=900"], cwd=d, capture_output=True, text=True, env=dict(env, PYTHONPATH=d))
    tail = r.stdout.strip().splitlines()[-1] if r.stdout.strip() else ""
    meta["tests_with_change"] = tail; meta["tests_pass_with_change"] = r.returncode == 0
    meta["ran"].append("cd <scratch copy with patch> && /venv/bin/python -m pytest -q -p no:cacheprovider -> " + tail)
    demo = os.path.join(out, "demo.py")
    r1 = subprocess.run(["/venv/bin/python", demo], cwd=d, capture_output=True, text=True, env=dict(env, PYTHONPATH=d), timeout=600)
    r2 = subprocess.run(["/venv/bin/python", demo], cwd="/tmp", capture_output=True, text=True, env=dict(env, PYTHONPATH="/repo"), timeout=600)
    meta["demo_exit_with_change"] = r1.returncode; meta["demo_exit_without_change"] = r2.returncode
    meta["demo_tail_with_change"] = (r1.stdout + r1.stderr).strip().splitlines()[-1:][0][:300] if (r1.stdout + r1.stderr).strip() else ""
    meta["ran"].append("PYTHONPATH=<scratch> /venv/bin/python demo.py -> exit %d; PYTHONPATH=/repo /venv/bin/python demo.py -> exit %d" % (r1.returncode, r2.returncode))
    meta["confirmed"] = bool(meta["patch_applies"] and meta["tests_pass_with_change"] and r1.returncode != 0 and r2.returncode == 0)
    meta["checks"] = {}
    for c in a.checks:
        t0 = time.time()
        r = subprocess.run(["/verif/check", c, "--tier", a.tier], capture_output=True, text=True, env=dict(env, VERIF_REPO=d, VERIF_NO_EVIDENCE="1", VERIF_REPLAY_DIR=os.path.join(d, "_replays")))
        viol = [l for l in r.stdout.splitlines() if l.startswith("VIOLATION")]
        sigs = [l.split(" x")[0].split("] ")[1] for l in r.stderr.splitlines() if l.startswith("[") and " x" in l]
        meta["checks"][c] = {"tier": a.tier, "exit": r.returncode, "caught": r.returncode == 1 and bool(viol), "signatures": sigs[:6], "wall_s": round(time.time() - t0, 1)}
        first = [l for l in r.stderr.splitlines() if l.startswith("[")][:1]
        meta["checks"][c]["first_counterexample"] = first[0][:500] if first else ""
        meta["ran"].append("VERIF_REPO=<scratch> ./check %s --tier %s -> exit %d" % (c, a.tier, r.returncode))
    meta["caught_by"] = [c for c, v in meta["checks"].items() if v["caught"]]
finally:
    shutil.rmtree(d, ignore_errors=True)
# merge with an earlier meta.json (keep results of other tiers/checks)
mp = os.path.join(out, "meta.json")
if os.path.exists(mp):
    old = json.load(open(mp))
    for c, v in old.get("checks", {}).items():
        if c not in meta["checks"] or (v.get("caught") and not meta["checks"][c]["caught"] and v.get("tier") != meta["checks"][c]["tier"]):
            meta["checks"].setdefault(c + "@" + v.get("tier", "?"), v)
    if not meta["needs_to_manifest"]:
        meta["needs_to_manifest"] = old.get("needs_to_manifest", "")
    meta["caught_by_earlier_runs"] = sorted(set(old.get("caught_by", [])) | set(old.get("caught_by_earlier_runs", [])))
    for k_, v_ in old.items():  # notes added by hand (history, wave, ...) stay
        meta.setdefault(k_, v_)
json.dump(meta, open(mp, "w"), indent=1)
print("%s confirmed=%s tests=%r demo(with)=%s demo(without)=%s caught_by=%s" % (a.seed_id, meta.get("confirmed"), meta.get("tests_with_change"), meta.get("demo_exit_with_change"), meta.get("demo_exit_without_change"), meta.get("caught_by")))
for c, v in meta["checks"].items():
    print("   ", c, v["caught"], v["signatures"][:3], v.get("first_counterexample", "")[:200])
