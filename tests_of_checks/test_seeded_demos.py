"""Plain tests, no explorer: every kept seeded change came with a small program (seeded/<id>/demo.py) that demonstrates the violation
of its property through the public behaviour the property describes.  On the unchanged tree every one of them must exit 0; applied to a
copy of the tree with seeded/<id>/patch.diff it must exit non-zero (tools/seedcheck.py and tools/reseed.sh do that part).

Run:  /venv/bin/python -m pytest -q /verif/tests_of_checks            (uses ${VERIF_REPO:-/repo})
"""
import glob
import os
import subprocess
import sys

import pytest

VERIF = os.path.dirname(os.path.dirname(os.path.abspath(__file__)))
REPO = os.environ.get("VERIF_REPO", "/repo")
DEMOS = sorted(glob.glob(os.path.join(VERIF, "seeded", "*", "demo.py")))


@pytest.mark.parametrize("demo", DEMOS, ids=[os.path.basename(os.path.dirname(d)) for d in DEMOS])
def test_demo_passes_on_the_tree(demo):
    env = dict(os.environ, PYTHONPATH=REPO, TERM="xterm", PYTHONDONTWRITEBYTECODE="1")
    r = subprocess.run([sys.executable, demo], cwd="/tmp", env=env, capture_output=True, text=True, timeout=300)
    assert r.returncode == 0, (r.stdout + r.stderr)[-2000:]
